#!/usr/bin/env python3
"""rs2v: parses the arithmetic leaf functions and `const` items of bumpalo out of
/repo/src and emits them as terms of the deep embedding coq/RustSem.v (LeafActual.v).

Only parsing happens here; what the terms *mean* is defined in Coq (RustSem.eval) and
what they are *proved equal to* is in coq/LeafActualOk.v.  A function that uses syntax
outside the fragment is emitted as `EPanic`-free absence: it is simply missing from the
table, and the lemma about it then fails.

  rs2v.py [repo]        print LeafActual.v to stdout
"""
import os
import re
import sys

sys.path.insert(0, os.path.dirname(os.path.abspath(__file__)))
from sigfacts import strip_comments, matching

# (file, function name) of the leaf functions the models rely on
LEAVES = [
    ("src/lib.rs", "round_up_to"),
    ("src/lib.rs", "round_up_to_unchecked"),
    ("src/lib.rs", "round_down_to"),
    ("src/lib.rs", "round_mut_ptr_down_to"),
    ("src/lib.rs", "is_pointer_aligned_to"),
    ("src/lib.rs", "allocation_limit_remaining"),
    ("src/lib.rs", "chunk_fits_under_limit"),
    ("src/lib.rs", "new_chunk_memory_details"),
    ("src/lib.rs", "try_alloc_layout_fast"),
    ("src/collections/raw_vec.rs", "amortized_new_size"),
]
# parts of larger functions, translated as functions of the same parameters:
#   ("cond", file, fn, new name): the condition of the function's first `if`, which must guard nothing
#            but an early `return Ok(());` / `return;` (the "there is room already" shortcut)
#   ("arm", file, fn, scrutinee, variant, new name): the right-hand side of `variant =>` in the
#            function's `match scrutinee { .. }`
PARTS = [
    ("src/collections/raw_vec.rs", "cap"),
    ("src/collections/raw_vec.rs", "current_layout"),
    ("cond", "src/collections/raw_vec.rs", "fallible_reserve_internal", "fallible_reserve_has_room"),
    ("cond", "src/collections/raw_vec.rs", "infallible_reserve_internal", "infallible_reserve_has_room"),
    ("arm", "src/collections/raw_vec.rs", "reserve_internal", "strategy", "Exact", "reserve_new_cap_exact"),
    ("arm", "src/collections/raw_vec.rs", "reserve_internal", "strategy", "Amortized", "reserve_new_cap_amortized"),
]
# expressions inside the functions that move the finger or copy bytes (they call other methods and
# write memory, so they are not translated as wholes): each is translated together with the `let`s
# in scope that it refers to.
#   ("expr", file, fn, locator, new name) with locator one of
#     ("let", name, k)            right-hand side of the k-th `let name = ..` of the body
#     ("if", k)                   condition of the k-th `if` of the body (in order of appearance)
#     ("arg", callee, k, i)       i-th argument of the k-th call of `callee`
EXPRS = [
    ("src/lib.rs", "is_last_allocation"),
    ("src/lib.rs", "layout_from_size_align"),
    ("src/lib.rs", "round_mut_ptr_up_to_unchecked"),
    ("expr", "src/lib.rs", "dealloc", ("if", 1), "dealloc_cond"),
    ("expr", "src/lib.rs", "dealloc", ("let", "ptr", 3), "dealloc_new_finger"),
    ("expr", "src/lib.rs", "shrink", ("if", 1), "shrink_align_raised"),
    ("expr", "src/lib.rs", "shrink", ("if", 2), "shrink_lucky"),
    ("expr", "src/lib.rs", "shrink", ("arg", "copy_nonoverlapping", 1, 2), "shrink_fresh_copy_len"),
    ("expr", "src/lib.rs", "shrink", ("let", "delta", 1), "shrink_delta"),
    ("expr", "src/lib.rs", "shrink", ("if", 3), "shrink_in_place_cond"),
    ("expr", "src/lib.rs", "shrink", ("let", "new_ptr", 2), "shrink_new_finger"),
    ("expr", "src/lib.rs", "shrink", ("arg", "copy_nonoverlapping", 2, 2), "shrink_in_place_copy_len"),
    ("expr", "src/lib.rs", "grow", ("let", "new_size", 2), "grow_rounded_size"),
    ("expr", "src/lib.rs", "grow", ("if", 1), "grow_in_place_cond"),
    ("expr", "src/lib.rs", "grow", ("let", "delta", 1), "grow_delta"),
    ("expr", "src/lib.rs", "grow", ("arg", "try_alloc_layout_fast", 1, 0), "grow_extra_layout"),
    ("expr", "src/lib.rs", "grow", ("arg", "copy", 1, 2), "grow_in_place_copy_len"),
    ("expr", "src/lib.rs", "grow", ("arg", "copy_nonoverlapping", 1, 2), "grow_fresh_copy_len"),
    # the getters and reset's accounting
    ("src/lib.rs", "chunk_capacity"),
    ("src/lib.rs", "allocated_bytes"),
    ("expr", "src/lib.rs", "reset", ("assign", "allocated_bytes", 1), "reset_allocated_bytes"),
    # alloc_layout_slow: the first candidate size, the small-limit bypass and the loop condition
    ("expr", "src/lib.rs", "alloc_layout_slow", ("let", "min_new_chunk_size", 1), "slow_min_new_chunk_size"),
    ("expr", "src/lib.rs", "alloc_layout_slow", ("let", "base_size", 1), "slow_first_candidate"),
    ("expr", "src/lib.rs", "alloc_layout_slow", ("let", "bypass_min_chunk_size_for_small_limits", 1), "slow_bypass"),
    ("expr", "src/lib.rs", "alloc_layout_slow", ("if", 2), "slow_try_candidate_cond"),   # (if #1 is the guard inside matches!)
]
EXPRS += [
    # new_chunk: where the footer goes, the initial finger and the running total (the details record
    # is destructured by a pattern and `data` comes from the global allocator: both are inputs)
    ("expr", "src/lib.rs", "new_chunk", ("let", "layout", 1), "new_chunk_layout", ("size", "align")),
    ("expr", "src/lib.rs", "new_chunk", ("let", "footer_ptr", 1), "new_chunk_footer_at", ("data", "new_size_without_footer")),
    ("expr", "src/lib.rs", "new_chunk", ("let", "ptr", 1), "new_chunk_finger", ("data", "new_size_without_footer")),
    ("expr", "src/lib.rs", "new_chunk", ("let", "allocated_bytes", 1), "new_chunk_allocated_bytes", ("new_size_without_footer",)),
    # the sentinel test (a whole function): by address
    ("src/lib.rs", "is_empty"),
    # chunk iteration: what a footer reports as its slice (`self` is the footer, by address)
    ("expr", "src/lib.rs", "as_raw_parts", ("let", "ptr", 1), "chunk_parts_ptr"),
    ("expr", "src/lib.rs", "as_raw_parts", ("let", "len", 1), "chunk_parts_len"),
    # ChunkRawIter::next: the end test and the step to the previous footer
    ("expr", "src/lib.rs", "impl:Iterator for ChunkRawIter:next", ("if", 1), "raw_iter_done"),
    ("expr", "src/lib.rs", "impl:Iterator for ChunkRawIter:next", ("assign", "footer", 1), "raw_iter_advance"),
    # the capacity constructor: the two assertions, the zero test, the layout asked for, and that no
    # size is "given" to new_chunk_memory_details (so the default chunk size is the floor)
    ("expr", "src/lib.rs", "try_with_min_align_and_capacity", ("assert", 1), "ctor_align_is_pow2"),
    ("expr", "src/lib.rs", "try_with_min_align_and_capacity", ("assert", 2), "ctor_align_small"),
    ("expr", "src/lib.rs", "try_with_min_align_and_capacity", ("if", 1), "ctor_capacity_zero"),
    ("expr", "src/lib.rs", "try_with_min_align_and_capacity", ("let", "layout", 1), "ctor_layout"),
    ("expr", "src/lib.rs", "try_with_min_align_and_capacity", ("arg", "new_chunk_memory_details", 1, 0), "ctor_given_size"),
    # alloc_try_with / try_alloc_try_with: what is saved on entry, and on an Err from the initialiser
    # the two tests and the two rewind targets (the saved values are inputs at that point)
    ("expr", "src/lib.rs", "alloc_try_with", ("let", "rewind_footer", 1), "atw_saved_footer"),
    ("expr", "src/lib.rs", "alloc_try_with", ("let", "rewind_ptr", 1), "atw_saved_ptr"),
    ("expr", "src/lib.rs", "alloc_try_with", ("if", 1), "atw_is_last", ("inner_result_ptr", "rewind_footer", "rewind_ptr")),
    ("expr", "src/lib.rs", "alloc_try_with", ("if", 2), "atw_same_chunk", ("inner_result_ptr", "rewind_footer", "rewind_ptr")),
    ("expr", "src/lib.rs", "alloc_try_with", ("arg", "set_ptr", 1, 0), "atw_rewind_same_chunk", ("inner_result_ptr", "rewind_footer", "rewind_ptr")),
    ("expr", "src/lib.rs", "alloc_try_with", ("arg", "set", 1, 0), "atw_rewind_new_chunk", ("inner_result_ptr", "rewind_footer", "rewind_ptr")),
    ("expr", "src/lib.rs", "try_alloc_try_with", ("let", "rewind_footer", 1), "tatw_saved_footer"),
    ("expr", "src/lib.rs", "try_alloc_try_with", ("let", "rewind_ptr", 1), "tatw_saved_ptr"),
    ("expr", "src/lib.rs", "try_alloc_try_with", ("if", 1), "tatw_is_last", ("inner_result_ptr", "rewind_footer", "rewind_ptr")),
    ("expr", "src/lib.rs", "try_alloc_try_with", ("if", 2), "tatw_same_chunk", ("inner_result_ptr", "rewind_footer", "rewind_ptr")),
    ("expr", "src/lib.rs", "try_alloc_try_with", ("arg", "set_ptr", 1, 0), "tatw_rewind_same_chunk", ("inner_result_ptr", "rewind_footer", "rewind_ptr")),
    ("expr", "src/lib.rs", "try_alloc_try_with", ("arg", "set", 1, 0), "tatw_rewind_new_chunk", ("inner_result_ptr", "rewind_footer", "rewind_ptr")),
    # Alloc::realloc for &Bump (RawVec's route into the arena): the zero-size shortcut, the new layout
    # and the shrink/grow dispatch
    ("expr", "src/lib.rs", "impl:Alloc for &'a Bump:realloc", ("if", 1), "realloc_old_is_empty"),
    ("expr", "src/lib.rs", "impl:Alloc for &'a Bump:realloc", ("let", "new_layout", 1), "realloc_new_layout"),
    ("expr", "src/lib.rs", "impl:Alloc for &'a Bump:realloc", ("if", 2), "realloc_shrinks"),
    ("expr", "src/collections/vec.rs", "insert", ("assert", 1), "vec_insert_index_ok"),
    ("expr", "src/collections/vec.rs", "insert", ("if", 1), "vec_insert_must_grow"),
    ("expr", "src/collections/vec.rs", "insert", ("arg", "copy", 1, 0), "vec_insert_copy_src"),
    ("expr", "src/collections/vec.rs", "insert", ("arg", "copy", 1, 1), "vec_insert_copy_dst"),
    ("expr", "src/collections/vec.rs", "insert", ("arg", "copy", 1, 2), "vec_insert_copy_len"),
    ("expr", "src/collections/vec.rs", "insert", ("arg", "set_len", 1, 0), "vec_insert_new_len"),
    ("expr", "src/collections/vec.rs", "remove", ("assert", 1), "vec_remove_index_ok"),
    ("expr", "src/collections/vec.rs", "remove", ("arg", "copy", 1, 0), "vec_remove_copy_src"),
    ("expr", "src/collections/vec.rs", "remove", ("arg", "copy", 1, 1), "vec_remove_copy_dst"),
    ("expr", "src/collections/vec.rs", "remove", ("arg", "copy", 1, 2), "vec_remove_copy_len"),
    ("expr", "src/collections/vec.rs", "remove", ("arg", "set_len", 1, 0), "vec_remove_new_len"),
    ("expr", "src/collections/vec.rs", "split_off", ("assert", 1), "vec_split_off_index_ok"),
    ("expr", "src/collections/vec.rs", "split_off", ("let", "other_len", 1), "vec_split_off_other_len"),
    ("expr", "src/collections/vec.rs", "split_off", ("arg", "copy_nonoverlapping", 1, 0), "vec_split_off_copy_src"),
    ("expr", "src/collections/vec.rs", "drain", ("let", "start", 1), "vec_drain_start"),
    ("expr", "src/collections/vec.rs", "drain", ("let", "end", 1), "vec_drain_end"),
    ("expr", "src/collections/vec.rs", "drain", ("assert", 1), "vec_drain_ordered"),
    ("expr", "src/collections/vec.rs", "drain", ("assert", 2), "vec_drain_in_range"),
    ("expr", "src/collections/vec.rs", "drain", ("field", "tail_len", 1), "vec_drain_tail_len"),
    # push / pop / append_elements: the "must grow" test, where the new element goes, what append reserves and copies
    ("expr", "src/collections/vec.rs", "push", ("if", 1), "vec_push_must_grow"),
    ("expr", "src/collections/vec.rs", "push", ("let", "end", 1), "vec_push_slot"),
    ("expr", "src/collections/vec.rs", "pop", ("if", 1), "vec_pop_empty"),
    ("expr", "src/collections/vec.rs", "append_elements", ("arg", "reserve", 1, 0), "vec_append_reserves", ("count",)),
    ("expr", "src/collections/vec.rs", "append_elements", ("arg", "copy_nonoverlapping", 1, 1), "vec_append_copy_dst", ("count",)),
    ("expr", "src/collections/vec.rs", "append_elements", ("arg", "copy_nonoverlapping", 1, 2), "vec_append_copy_len", ("count",)),
    # Splice: the gap Drain::fill writes into, and Drain::move_tail's reservation and memmove
    ("expr", "src/collections/vec.rs", "fill", ("let", "range_start", 1), "vec_splice_fill_start"),
    ("expr", "src/collections/vec.rs", "fill", ("let", "range_end", 1), "vec_splice_fill_end"),
    ("expr", "src/collections/vec.rs", "fill", ("arg", "from_raw_parts_mut", 1, 0), "vec_splice_fill_at"),
    ("expr", "src/collections/vec.rs", "fill", ("arg", "from_raw_parts_mut", 1, 1), "vec_splice_fill_gap"),
    ("expr", "src/collections/vec.rs", "move_tail", ("let", "used_capacity", 1), "vec_splice_used_capacity"),
    ("expr", "src/collections/vec.rs", "move_tail", ("arg", "reserve", 1, 1), "vec_splice_reserve_extra"),
    ("expr", "src/collections/vec.rs", "move_tail", ("let", "new_tail_start", 1), "vec_splice_new_tail_start"),
    ("expr", "src/collections/vec.rs", "move_tail", ("let", "src", 1), "vec_splice_move_src"),
    ("expr", "src/collections/vec.rs", "move_tail", ("let", "dst", 1), "vec_splice_move_dst"),
    ("expr", "src/collections/vec.rs", "move_tail", ("arg", "copy", 1, 2), "vec_splice_move_len"),
    # DrainFilter: the length its destructor restores
    ("expr", "src/collections/vec.rs", "impl:Drop for DrainFilter:drop", ("arg", "set_len", 1, 0), "vec_drain_filter_drop_new_len"),
    # Drain::drop: whether there is a tail to move back, whether it has to move, the memmove and the new length
    ("expr", "src/collections/vec.rs", "impl:Drop for Drain:drop", ("if", 1), "vec_drain_drop_has_tail"),
    ("expr", "src/collections/vec.rs", "impl:Drop for Drain:drop", ("if", 2), "vec_drain_drop_must_move"),
    ("expr", "src/collections/vec.rs", "impl:Drop for Drain:drop", ("let", "src", 1), "vec_drain_drop_copy_src"),
    ("expr", "src/collections/vec.rs", "impl:Drop for Drain:drop", ("let", "dst", 1), "vec_drain_drop_copy_dst"),
    ("expr", "src/collections/vec.rs", "impl:Drop for Drain:drop", ("arg", "copy", 1, 2), "vec_drain_drop_copy_len"),
    ("expr", "src/collections/vec.rs", "impl:Drop for Drain:drop", ("arg", "set_len", 1, 0), "vec_drain_drop_new_len"),
    ("expr", "src/collections/string.rs", "drain", ("let", "start", 1), "string_drain_start"),
    ("expr", "src/collections/string.rs", "drain", ("let", "end", 1), "string_drain_end"),
    # String: remove / insert_bytes / pop / truncate (`ch`, the decoded character, and `bytes`, the
    # inserted text, are inputs: records carrying len_utf8 / len)
    ("expr", "src/collections/string.rs", "remove", ("let", "next", 1), "string_remove_next", ("ch",)),
    ("expr", "src/collections/string.rs", "remove", ("arg", "copy", 1, 0), "string_remove_copy_src", ("ch",)),
    ("expr", "src/collections/string.rs", "remove", ("arg", "copy", 1, 1), "string_remove_copy_dst", ("ch",)),
    ("expr", "src/collections/string.rs", "remove", ("arg", "copy", 1, 2), "string_remove_copy_len", ("ch",)),
    ("expr", "src/collections/string.rs", "remove", ("arg", "set_len", 1, 0), "string_remove_new_len", ("ch",)),
    ("expr", "src/collections/string.rs", "insert_bytes", ("arg", "reserve", 1, 0), "string_insert_reserve"),
    ("expr", "src/collections/string.rs", "insert_bytes", ("arg", "copy", 1, 0), "string_insert_shift_src"),
    ("expr", "src/collections/string.rs", "insert_bytes", ("arg", "copy", 1, 1), "string_insert_shift_dst"),
    ("expr", "src/collections/string.rs", "insert_bytes", ("arg", "copy", 1, 2), "string_insert_shift_len"),
    ("expr", "src/collections/string.rs", "insert_bytes", ("arg", "copy", 2, 0), "string_insert_write_src"),
    ("expr", "src/collections/string.rs", "insert_bytes", ("arg", "copy", 2, 1), "string_insert_write_dst"),
    ("expr", "src/collections/string.rs", "insert_bytes", ("arg", "copy", 2, 2), "string_insert_write_len"),
    ("expr", "src/collections/string.rs", "insert_bytes", ("arg", "set_len", 1, 0), "string_insert_new_len"),
    ("expr", "src/collections/string.rs", "pop", ("let", "newlen", 1), "string_pop_new_len", ("ch",)),
    # String::retain: the guard's destructor, the "something was deleted" test and the move of a kept character
    ("expr", "src/collections/string.rs", "retain", ("let", "new_len", 1), "string_retain_guard_len"),
    ("expr", "src/collections/string.rs", "retain", ("if", 2), "string_retain_must_move", ("guard", "ch")),
    ("expr", "src/collections/string.rs", "retain", ("arg", "copy", 1, 0), "string_retain_copy_src", ("guard", "ch")),
    ("expr", "src/collections/string.rs", "retain", ("arg", "copy", 1, 1), "string_retain_copy_dst", ("guard", "ch")),
    ("expr", "src/collections/string.rs", "retain", ("arg", "copy", 1, 2), "string_retain_copy_len", ("guard", "ch")),
    ("expr", "src/collections/string.rs", "truncate", ("if", 1), "string_truncate_in_range"),
]
# statements around those expressions that have no value to translate: their text, whitespace-free,
# must occur in the function (a rewrite of them fails the obligation src_frames_ok)
FRAMES = [
    ("src/lib.rs", "alloc_layout_slow", "candidate_loop_body",
     "letsize=base_size;base_size/=2;tried_zero=size==0;Self::new_chunk_memory_details(Some(size),layout)"),
    ("src/lib.rs", "alloc_layout_slow", "candidate_filter",
     "ifSelf::chunk_fits_under_limit(allocation_limit_remaining,chunk_memory_details,){Self::new_chunk(chunk_memory_details,layout,current_footer)}else{None}}).next()?;"),
    ("src/lib.rs", "alloc_layout_slow", "install_and_allocate",
     "self.current_chunk_footer.set(new_footer);letptr=self.try_alloc_layout_fast(layout);"),
    ("src/lib.rs", "reset", "reset_frees_all_but_current",
     "letprev_chunk=cur_chunk.as_ref().prev.replace(EMPTY_CHUNK.get());dealloc_chunk_list(prev_chunk);"),
    ("src/lib.rs", "reset", "reset_finger_to_footer", "cur_chunk.as_ref().ptr.set(cur_chunk.cast());"),
    ("src/lib.rs", "new_chunk", "new_chunk_footer_written",
     "ptr::write(footer_ptr,ChunkFooter{data,layout,prev:Cell::new(prev),ptr,allocated_bytes,},);Some(NonNull::new_unchecked(footer_ptr))"),
    ("src/lib.rs", "new_chunk", "new_chunk_asks_allocator", "letdata=alloc(layout);letdata=NonNull::new(data)?;"),
    ("src/lib.rs", "reset", "reset_empty_is_noop", "ifself.current_chunk_footer.get().as_ref().is_empty(){return;}"),
    ("src/lib.rs", "try_with_min_align_and_capacity", "ctor_zero_takes_nothing",
     "ifcapacity==0{returnOk(Bump{current_chunk_footer:Cell::new(EMPTY_CHUNK.get()),allocation_limit:Cell::new(None),});}"),
    ("src/lib.rs", "try_with_min_align_and_capacity", "ctor_one_chunk_no_limit",
     "letchunk_footer=unsafe{Self::new_chunk(Self::new_chunk_memory_details(None,layout).ok_or(AllocErr)?,layout,EMPTY_CHUNK.get(),).ok_or(AllocErr)?};Ok(Bump{current_chunk_footer:Cell::new(chunk_footer),allocation_limit:Cell::new(None),})"),
    # placing values: one write of f()'s result, a copy of exactly src.len() elements, clones and
    # initialisers in index order, one call per index
    ("src/lib.rs", "alloc_with", "alloc_with_writes_result_once",
     "letlayout=Layout::new::<T>();unsafe{letp=self.alloc_layout(layout);letp=p.as_ptr()as*mutT;inner_writer(p,f);&mut*p}"),
    ("src/lib.rs", "alloc_with", "alloc_with_inner_writer", "{ptr::write(ptr,f());}"),
    ("src/lib.rs", "alloc_slice_copy", "slice_copy_copies_len_elements",
     "{letlayout=Layout::for_value(src);letdst=self.alloc_layout(layout).cast::<T>();unsafe{ptr::copy_nonoverlapping(src.as_ptr(),dst.as_ptr(),src.len());slice::from_raw_parts_mut(dst.as_ptr(),src.len())}}"),
    ("src/lib.rs", "alloc_slice_clone", "slice_clone_in_order",
     "unsafe{for(i,val)insrc.iter().cloned().enumerate(){ptr::write(dst.as_ptr().add(i),val);}slice::from_raw_parts_mut(dst.as_ptr(),src.len())}"),
    ("src/lib.rs", "alloc_str", "alloc_str_copies_bytes",
     "{letbuffer=self.alloc_slice_copy(src.as_bytes());unsafe{str::from_utf8_unchecked_mut(buffer)}}"),
    ("src/lib.rs", "alloc_slice_fill_with", "slice_fill_in_index_order",
     "unsafe{foriin0..len{ptr::write(dst.as_ptr().add(i),f(i));}letresult=slice::from_raw_parts_mut(dst.as_ptr(),len);"),
    ("src/lib.rs", "try_alloc_slice_fill_with", "try_slice_fill_in_index_order",
     "unsafe{foriin0..len{ptr::write(dst.as_ptr().add(i),f(i));}letresult=slice::from_raw_parts_mut(dst.as_ptr(),len);"),
    ("src/lib.rs", "alloc_slice_fill_iter", "slice_fill_iter_takes_next_per_index",
     "{letmutiter=iter.into_iter();self.alloc_slice_fill_with(iter.len(),|_|{iter.next().expect("),
    # chunk iteration: start at the current footer, stop at the sentinel, follow prev; the safe
    # iterator wraps the raw one; the metadata total counts the raw iterator's items
    ("src/lib.rs", "as_raw_parts", "chunk_parts_returned", "(ptr,len)}"),
    ("src/lib.rs", "next#1", "chunk_iter_wraps_raw",
     "{unsafe{let(ptr,len)=self.raw.next()?;letslice=slice::from_raw_parts(ptras*constmem::MaybeUninit<u8>,len);Some(slice)}}"),
    ("src/lib.rs", "next#2", "chunk_raw_iter_walk",
     "{unsafe{letfoot=self.footer.as_ref();iffoot.is_empty(){returnNone;}let(ptr,len)=foot.as_raw_parts();self.footer=foot.prev.get();Some((ptras*mutu8,len))}}"),
    ("src/lib.rs", "iter_allocated_chunks_raw", "chunk_raw_iter_starts_at_current",
     "{ChunkRawIter{footer:self.current_chunk_footer.get(),bump:PhantomData,}}"),
    ("src/lib.rs", "iter_allocated_chunks", "chunk_iter_from_raw",
     "{letraw=unsafe{self.iter_allocated_chunks_raw()};ChunkIter{raw,bump:PhantomData,}}"),
    ("src/lib.rs", "allocated_bytes_including_metadata", "metadata_counts_chunks",
     "{letmetadata_size=unsafe{self.iter_allocated_chunks_raw().count()*mem::size_of::<ChunkFooter>()};self.allocated_bytes()+metadata_size}"),
    # giving memory back: the chunk-list walk, what Drop and the sentinel test are
    ("src/lib.rs", "dealloc_chunk_list", "chunk_list_walk",
     "{while!footer.as_ref().is_empty(){letf=footer;footer=f.as_ref().prev.get();dealloc(f.as_ref().data.as_ptr(),f.as_ref().layout);}}"),
    ("src/lib.rs", "drop", "drop_frees_whole_list", "{unsafe{dealloc_chunk_list(self.current_chunk_footer.get());}}"),
    ("src/lib.rs", "is_empty", "sentinel_test_by_address", "{ptr::eq(self,EMPTY_CHUNK.get().as_ptr())}"),
    ("src/lib.rs", "set_ptr", "set_ptr_spares_sentinel", "{if!self.is_empty(){self.ptr.set(ptr);"),
    # *_try_with: the slot is reserved through (try_)alloc_with, the error value is read out once
    ("src/lib.rs", "alloc_try_with", "atw_reserves_then_matches",
     "letmutinner_result_ptr=NonNull::from(self.alloc_with(f));matchunsafe{inner_result_ptr.as_mut()}{Ok(t)=>Ok(unsafe{&mut*(tas*mut_)}),Err(e)=>unsafe{ifself.is_last_allocation(inner_result_ptr.cast()){"),
    ("src/lib.rs", "alloc_try_with", "atw_error_read_once", "}}Err(ptr::read(eas*const_))},}"),
    ("src/lib.rs", "try_alloc_try_with", "tatw_reserves_then_matches",
     "letmutinner_result_ptr=NonNull::from(self.try_alloc_with(f)?);matchunsafe{inner_result_ptr.as_mut()}{Ok(t)=>Ok(unsafe{&mut*(tas*mut_)}),Err(e)=>unsafe{ifself.is_last_allocation(inner_result_ptr.cast()){"),
    ("src/lib.rs", "try_alloc_try_with", "tatw_error_read_once", "}}Err(AllocOrInitError::Init(ptr::read(eas*const_)))},}"),
    ("src/lib.rs", "alloc_slice_try_fill_with", "try_fill_releases_on_error",
     "Err(e)=>{self.dealloc(base_ptr,layout);returnErr(e);}"),
    # Box: owning the value but not the memory — what Drop, the raw round trip, leak, into_inner, the
    # array/slice conversions and downcast are made of ("*": the statement is looked for in the whole file)
    ("src/boxed.rs", "drop", "box_drop_runs_destructor_only", "{unsafe{core::ptr::drop_in_place(self.0);}}"),
    ("src/boxed.rs", "new_in", "box_new_allocates_in_arena", "{Box(a.alloc(x))}"),
    ("src/boxed.rs", "into_inner", "box_into_inner_reads_out", "{unsafe{core::ptr::read(Box::into_raw(b))}}"),
    ("src/boxed.rs", "from_raw", "box_from_raw_wraps", "{Box(&mut*raw)}"),
    ("src/boxed.rs", "into_raw", "box_into_raw_forgets", "{letmutb=ManuallyDrop::new(b);b.deref_mut().0as*mutT}"),
    ("src/boxed.rs", "leak", "box_leak_is_into_raw", "{unsafe{&mut*Box::into_raw(b)}}"),
    ("src/boxed.rs", "*", "box_array_to_slice",
     "fnfrom(arr:Box<'a,[T;N]>)->Box<'a,[T]>{letmutarr=ManuallyDrop::new(arr);letptr=core::ptr::slice_from_raw_parts_mut(arr.as_mut_ptr(),N);unsafe{Box::from_raw(ptr)}}"),
    ("src/boxed.rs", "*", "box_slice_to_array",
     "fntry_from(slice:Box<'a,[T]>)->Result<Box<'a,[T;N]>,Box<'a,[T]>>{ifslice.len()==N{letmutslice=ManuallyDrop::new(slice);letptr=slice.as_mut_ptr()as*mut[T;N];Ok(unsafe{Box::from_raw(ptr)})}else{Err(slice)}}"),
    ("src/boxed.rs", "*", "box_downcast_any",
     "pubfndowncast<T:Any>(self)->Result<Box<'a,T>,Box<'a,dynAny>>{ifself.is::<T>(){unsafe{letraw:*mutdynAny=Box::into_raw(self);Ok(Box::from_raw(rawas*mutT))}}else{Err(self)}}"),
    ("src/boxed.rs", "*", "box_downcast_any_send",
     "pubfndowncast<T:Any>(self)->Result<Box<'a,T>,Box<'a,dynAny+Send>>{ifself.is::<T>(){unsafe{letraw:*mut(dynAny+Send)=Box::into_raw(self);Ok(Box::from_raw(rawas*mutT))}}else{Err(self)}}"),
    # RawVec: the whole current buffer is what is handed to realloc / dealloc, and the new pointer and
    # capacity are stored together
    ("src/collections/raw_vec.rs", "reserve_internal", "rawvec_realloc_whole_buffer",
     "letres=matchself.current_layout(){Some(layout)=>{debug_assert!(new_layout.align()==layout.align());self.a.realloc(self.ptr.cast(),layout,new_layout.size())}None=>Alloc::alloc(&mutself.a,new_layout),};"),
    ("src/collections/raw_vec.rs", "reserve_internal", "rawvec_stores_ptr_and_cap", "self.ptr=res?.cast();self.cap=new_cap;Ok(())"),
    ("src/collections/raw_vec.rs", "reserve_internal", "rawvec_new_layout_is_array_of_new_cap",
     "letnew_layout=Layout::array::<T>(new_cap).map_err(|_|CapacityOverflow)?;alloc_guard(new_layout.size())?;"),
    ("src/collections/raw_vec.rs", "dealloc_buffer", "rawvec_dealloc_whole_buffer",
     "ifelem_size!=0{ifletSome(layout)=self.current_layout(){self.a.dealloc(self.ptr.cast(),layout);}}"),
    ("src/lib.rs", "impl:Alloc for &'a Bump:realloc", "realloc_dispatch",
     "ifold_size==0{returnself.try_alloc_layout(layout);}letnew_layout=layout_from_size_align(new_size,layout.align())?;ifnew_size<=old_size{self.shrink(ptr,layout,new_layout)}else{self.grow(ptr,layout,new_layout)}"),
    # Vec: what surrounds the located expressions of insert / remove
    ("src/collections/vec.rs", "impl:Drop for Drain:drop", "vec_drain_drop_exhausts_first", "{self.for_each(drop);ifself.tail_len>0{"),
    ("src/collections/vec.rs", "impl:Drop for Drain:drop", "vec_drain_drop_moves",
     "iftail!=start{letsrc=source_vec.as_ptr().add(tail);letdst=source_vec.as_mut_ptr().add(start);ptr::copy(src,dst,self.tail_len);}source_vec.set_len(start+self.tail_len);"),
    ("src/collections/vec.rs", "drain", "vec_drain_shortens_first",
     "self.set_len(start);"),
    ("src/collections/vec.rs", "impl:IntoIterator for Vec:into_iter", "vec_into_iter_spans_the_contents",
     "letbegin=self.as_mut_ptr();letend=ifmem::size_of::<T>()==0{arith_offset(beginas*consti8,self.len()asisize)as*constT}else{begin.add(self.len())as*constT};mem::forget(self);IntoIter{phantom:PhantomData,ptr:begin,end,}"),
    ("src/collections/vec.rs", "impl:Iterator for IntoIter:next", "vec_into_iter_next",
     "ifself.ptras*const_==self.end{None}elseifmem::size_of::<T>()==0{self.ptr=arith_offset(self.ptras*consti8,1)as*mutT;Some(mem::zeroed())}else{letold=self.ptr;self.ptr=self.ptr.offset(1);Some(ptr::read(old))}"),
    ("src/collections/vec.rs", "impl:DoubleEndedIterator for IntoIter:next_back", "vec_into_iter_next_back",
     "ifself.end==self.ptr{None}elseifmem::size_of::<T>()==0{self.end=arith_offset(self.endas*consti8,-1)as*mutT;Some(mem::zeroed())}else{self.end=self.end.offset(-1);Some(ptr::read(self.end))}"),
    ("src/collections/vec.rs", "impl:Drop for IntoIter:drop", "vec_into_iter_drop_drops_the_rest", "{self.for_each(drop);}"),
    ("src/collections/vec.rs", "fill", "vec_splice_fill_loop",
     "forplaceinrange_slice{ifletSome(new_item)=replace_with.next(){ptr::write(place,new_item);vec.len+=1;}else{returnfalse;}}true"),
    ("src/collections/vec.rs", "move_tail", "vec_splice_move_tail_stores", "ptr::copy(src,dst,self.tail_len);self.tail_start=new_tail_start;"),
    ("src/collections/vec.rs", "impl:Drop for Splice:drop", "vec_splice_drop_steps",
     "{self.drain.by_ref().for_each(drop);unsafe{ifself.drain.tail_len==0{self.drain.vec.as_mut().extend(self.replace_with.by_ref());return;}if!self.drain.fill(&mutself.replace_with){return;}let(lower_bound,_upper_bound)=self.replace_with.size_hint();iflower_bound>0{self.drain.move_tail(lower_bound);if!self.drain.fill(&mutself.replace_with){return;}}letmutcollected=Vec::new_in(self.drain.vec.as_ref().buf.bump());collected.extend(self.replace_with.by_ref());letmutcollected=collected.into_iter();ifcollected.len()>0{self.drain.move_tail(collected.len());letfilled=self.drain.fill(&mutcollected);"),
    ("src/collections/vec.rs", "partition_dedup_by", "vec_dedup_partition_loop",
     "letlen=s.len();iflen<=1{return(s,&mut[]);}letptr=s.as_mut_ptr();letmutnext_read:usize=1;letmutnext_write:usize=1;unsafe{whilenext_read<len{letptr_read=ptr.add(next_read);letprev_ptr_write=ptr.add(next_write-1);if!same_bucket(&mut*ptr_read,&mut*prev_ptr_write){ifnext_read!=next_write{letptr_write=prev_ptr_write.offset(1);mem::swap(&mut*ptr_read,&mut*ptr_write);}next_write+=1;}next_read+=1;}}s.split_at_mut(next_write)"),
    ("src/collections/vec.rs", "retain", "vec_retain_is_drain_filter", "{self.drain_filter(|x|!f(x));}"),
    ("src/collections/vec.rs", "drain_filter", "vec_drain_filter_hides_elements_first",
     "{letold_len=self.len();unsafe{self.set_len(0);}DrainFilter{vec:self,idx:0,del:0,old_len,pred:filter,}}"),
    ("src/collections/vec.rs", "dedup_by", "vec_dedup_by_partitions_then_truncates",
     "{letlen={let(dedup,_)=partition_dedup_by(self.as_mut_slice(),same_bucket);dedup.len()};self.truncate(len);}"),
    ("src/collections/vec.rs", "impl:Iterator for DrainFilter:next", "vec_drain_filter_step",
     "whileself.idx!=self.old_len{leti=self.idx;self.idx+=1;self.del+=1;letv=slice::from_raw_parts_mut(self.vec.as_mut_ptr(),self.old_len);if(self.pred)(&mutv[i]){returnSome(ptr::read(&v[i]));}self.del-=1;ifself.del>0{letdel=self.del;letsrc:*constT=&v[i];letdst:*mutT=&mutv[i-del];ptr::copy_nonoverlapping(src,dst,1);}}None"),
    ("src/collections/vec.rs", "impl:Drop for DrainFilter:drop", "vec_drain_filter_drop_exhausts_first",
     "{self.for_each(drop);unsafe{self.vec.set_len(self.old_len-self.del);}}"),
    ("src/collections/vec.rs", "into_bump_slice", "vec_into_bump_slice_forgets",
     "{unsafe{letptr=self.as_ptr();letlen=self.len();mem::forget(self);slice::from_raw_parts(ptr,len)}}"),
    ("src/collections/vec.rs", "into_bump_slice_mut", "vec_into_bump_slice_mut_forgets",
     "{letptr=self.as_mut_ptr();letlen=self.len();mem::forget(self);unsafe{slice::from_raw_parts_mut(ptr,len)}}"),
    ("src/collections/vec.rs", "into_boxed_slice", "vec_into_boxed_slice_forgets",
     "unsafe{letslice=slice::from_raw_parts_mut(self.as_mut_ptr(),self.len);letoutput:Box<'bump,[T]>=Box::from_raw(slice);mem::forget(self);output}"),
    ("src/collections/vec.rs", "push", "vec_push_writes_then_counts",
     "{ifself.len==self.buf.cap(){self.reserve(1);}unsafe{letend=self.buf.ptr().add(self.len);ptr::write(end,value);self.len+=1;}}"),
    ("src/collections/vec.rs", "pop", "vec_pop_counts_then_reads",
     "{ifself.len==0{None}else{unsafe{self.len-=1;Some(ptr::read(self.as_ptr().add(self.len())))}}}"),
    ("src/collections/vec.rs", "swap_remove", "vec_swap_remove_moves_last_into_hole",
     "{unsafe{lethole:*mutT=&mutself[index];letlast=ptr::read(self.get_unchecked(self.len-1));self.len-=1;ptr::replace(hole,last)}}"),
    ("src/collections/vec.rs", "truncate", "vec_truncate_counts_before_each_drop",
     "letmutlocal_len=SetLenOnDrop::new(&mutself.len);for_inlen..current_len{local_len.decrement_len(1);ptr=ptr.offset(-1);ptr::drop_in_place(ptr);}"),
    ("src/collections/vec.rs", "append_elements", "vec_append_counts_after_copy",
     "{letcount=(*other).len();self.reserve(count);letlen=self.len();ptr::copy_nonoverlapping(otheras*constT,self.as_mut_ptr().add(len),count);self.len+=count;}"),
    ("src/collections/vec.rs", "append", "vec_append_empties_other", "{unsafe{self.append_elements(other.as_slice()as_);other.set_len(0);}}"),
    ("src/collections/vec.rs", "insert", "vec_insert_grows_then_writes",
     "iflen==self.buf.cap(){self.reserve(1);}unsafe{{letp=self.as_mut_ptr().add(index);ptr::copy(p,p.offset(1),len-index);ptr::write(p,element);}self.set_len(len+1);}"),
    ("src/collections/vec.rs", "remove", "vec_remove_reads_then_closes",
     "unsafe{letret;{letptr=self.as_mut_ptr().add(index);ret=ptr::read(ptr);ptr::copy(ptr.offset(1),ptr,len-index-1);}self.set_len(len-1);ret}"),
    # String: the boundary assertions in front of the byte moves, and what the moves are made with
    ("src/collections/string.rs", "truncate", "string_truncate_checked",
     "{assert!(self.is_char_boundary(new_len));self.vec.truncate(new_len)}"),
    ("src/collections/string.rs", "insert", "string_insert_checked",
     "assert!(self.is_char_boundary(idx));letmutbits=[0;4];letbits=ch.encode_utf8(&mutbits).as_bytes();unsafe{self.insert_bytes(idx,bits);}"),
    ("src/collections/string.rs", "insert_str", "string_insert_str_checked",
     "assert!(self.is_char_boundary(idx));unsafe{self.insert_bytes(idx,string.as_bytes());}"),
    ("src/collections/string.rs", "split_off", "string_split_off_checked",
     "assert!(self.is_char_boundary(at));letother=self.vec.split_off(at);unsafe{String::from_utf8_unchecked(other)}"),
    ("src/collections/string.rs", "retain", "string_retain_guard_sets_len",
     "fndrop(&mutself){letnew_len=self.idx-self.del_bytes;"),
    ("src/collections/string.rs", "retain", "string_retain_guard_set_len_call", "unsafe{self.s.vec.set_len(new_len)};}}"),
    ("src/collections/string.rs", "retain", "string_retain_loop",
     "letlen=self.len();letmutguard=SetLenOnDrop{s:self,idx:0,del_bytes:0,};whileguard.idx<len{letch=unsafe{guard.s.get_unchecked(guard.idx..len).chars().next().unwrap()};letch_len=ch.len_utf8();if!f(ch){guard.del_bytes+=ch_len;}elseifguard.del_bytes>0{unsafe{ptr::copy("),
    ("src/collections/string.rs", "retain", "string_retain_advances_after_callback", ");}}guard.idx+=ch_len;}drop(guard);}"),
    ("src/collections/string.rs", "into_bump_str", "string_into_bump_str_forgets",
     "{lets=unsafe{lets=self.as_str();mem::transmute(s)};mem::forget(self);s}"),
    ("src/collections/string.rs", "remove", "string_remove_decodes_at_idx",
     "letch=matchself[idx..].chars().next(){Some(ch)=>ch,None=>panic!("),
    ("src/collections/string.rs", "remove", "string_remove_moves",
     "unsafe{ptr::copy(self.vec.as_ptr().add(next),self.vec.as_mut_ptr().add(idx),len-next,);self.vec.set_len(len-(next-idx));}ch}"),
    ("src/collections/string.rs", "pop", "string_pop_last_char",
     "letch=self.chars().rev().next()?;letnewlen=self.len()-ch.len_utf8();unsafe{self.vec.set_len(newlen);}Some(ch)"),
    ("src/collections/string.rs", "insert_bytes", "string_insert_bytes_moves",
     "self.vec.reserve(amt);ptr::copy(self.vec.as_ptr().add(idx),self.vec.as_mut_ptr().add(idx+amt),len-idx,);ptr::copy(bytes.as_ptr(),self.vec.as_mut_ptr().add(idx),amt);self.vec.set_len(len+amt);"),
    # replace_range asks for the extra room BEFORE the splice writes anything (F14): a refusal leaves the text untouched
    ("src/collections/string.rs", "replace_range", "string_replace_range_reserves_first",
     "ifletSome(removed)=end.checked_sub(start){self.vec.reserve(replace_with.len().saturating_sub(removed));}unsafe{self.as_mut_vec()}.splice(range,replace_with.bytes());}"),
]
# methods of `self` that are functions of the table when called with one argument
SELF_FNS = {"is_last_allocation"}
# zero-argument methods that are functions of the table (called with the receiver as `self`)
RECV_FNS0 = {"is_empty"}
# calls that run caller-supplied code (destructors): they may panic
MAY_PANIC = {"drop_in_place"}
# procedures: functions made of statements (let / assignment / while / calls made for their effect)
#   (file, function, new name[, ("while", k)])  — with a locator only the k-th `while` statement is taken
PROCS = [("src/lib.rs", "dealloc_chunk_list", "dealloc_chunk_list"),
         ("src/collections/vec.rs", "partition_dedup_by", "dedup_partition_loop", ("while", 1)),
         ("src/collections/vec.rs", "truncate", "vec_truncate_loop", ("for", 1)),
         ("src/lib.rs", "alloc_slice_fill_with", "slice_fill_with_loop", ("for", 1)),
         ("src/lib.rs", "try_alloc_slice_fill_with", "try_slice_fill_with_loop", ("for", 1)),
         ("src/lib.rs", "alloc_slice_try_fill_with", "slice_try_fill_with_loop", ("for", 1)),
         ("src/collections/vec.rs", "extend_with", "vec_extend_with"),
         ("src/collections/vec.rs", "impl:Iterator for DrainFilter:next", "vec_drain_filter_next", ("while", 1),
          {"rename": [("(self.pred)", "pred"), ("self.idx", "idx"), ("self.del", "del"), ("self.old_len", "old_len")],
           "closures": ["pred"], "index": True})]
CONST_FILE = "src/lib.rs"


class Unsupported(Exception):
    pass


TOKEN = re.compile(r"""
    (?P<ws>\s+)
  | (?P<num>0x[0-9a-fA-F_]+(?:usize|u64|u32|u8)?|[0-9][0-9_]*(?:usize|u64|u32|u8|isize)?)
  | (?P<life>'[A-Za-z_]\w*)
  | (?P<id>[A-Za-z_]\w*!?)
  | (?P<op>::|->|=>|==|!=|<=|>=|&&|\|\||<<|>>|\.\.|[-+*/%&|^!<>=.,;:(){}\[\]?#@])
""", re.X)


def tokenize(src):
    out = []
    i = 0
    while i < len(src):
        m = TOKEN.match(src, i)
        if not m:
            raise Unsupported("cannot tokenize at %r" % src[i:i + 20])
        i = m.end()
        if m.lastgroup == "ws":
            continue
        out.append((m.lastgroup, m.group(0)))
    return out


BINOPS = [
    ({"||"}, {"||": "BLOr"}),
    ({"&&"}, {"&&": "BLAnd"}),
    ({"==", "!=", "<", "<=", ">", ">="}, {"==": "BEq", "!=": "BNe", "<": "BLt", "<=": "BLe", ">": "BGt", ">=": "BGe"}),
    ({"|"}, {"|": "BOr"}),
    ({"^"}, {"^": "BXor"}),
    ({"&"}, {"&": "BAnd"}),
    ({"<<", ">>"}, {"<<": "BShl", ">>": "BShr"}),
    ({"+", "-"}, {"+": "BAdd", "-": "BSub"}),
    ({"*", "/", "%"}, {"*": "BMul", "/": "BDiv", "%": "BRem"}),
]


def q(s):
    return '"%s"' % s


class Parser:
    def __init__(self, toks):
        self.t = toks
        self.i = 0
        self.skipped_asserts = 0
        self.closures = set()          # parameters that are caller-supplied closures (procedures only)
        self.index_ok = False          # s[i] denotes the address of the place (procedures that ask for it)
        self.dropvars = set()          # names bound to the value a closure answered with (not recorded)

    # -- token helpers
    def peek(self, k=0):
        return self.t[self.i + k][1] if self.i + k < len(self.t) else None

    def kind(self, k=0):
        return self.t[self.i + k][0] if self.i + k < len(self.t) else None

    def eat(self, v=None):
        if self.i >= len(self.t):
            raise Unsupported("unexpected end")
        tok = self.t[self.i][1]
        if v is not None and tok != v:
            raise Unsupported("expected %r, found %r" % (v, tok))
        self.i += 1
        return tok

    def skip_balanced(self, open_c, close_c):
        depth = 0
        while True:
            tok = self.eat()
            if tok == open_c:
                depth += 1
            elif tok == close_c:
                depth -= 1
                if depth == 0:
                    return

    def skip_type(self):
        """skip a type after `:` or `as` (up to a token that cannot continue a type)"""
        depth = 0
        while self.i < len(self.t):
            tok = self.peek()
            if tok in ("<", "(", "["):
                depth += 1
            elif tok in (">", ")", "]"):
                if depth == 0:
                    return
                depth -= 1
            elif depth == 0 and (tok in ("=", ";", ",", "{", "}", "=>", "?", ".", "==", "!=", "<=", ">=", "&&", "||", "+", "-", "/", "%", "|", "^", "<<", ">>")):
                return
            self.eat()

    def skip_cast_type(self):
        """the type after `as`: a (pointer to a) path, possibly with generics"""
        if self.peek() == "*":
            self.eat()
            if self.peek() in ("mut", "const"):
                self.eat()
        if self.kind() != "id":
            raise Unsupported("cast target")
        self.eat()
        while self.peek() == "::":
            self.eat()
            self.eat()
        if self.peek() == "<":
            self.skip_balanced("<", ">")

    # -- blocks and statements
    def block(self):
        """{ stmts } -> expr term (string)"""
        self.eat("{")
        e = self.stmts()
        self.eat("}")
        return e

    def assigned_vars(self, start):
        """variables assigned (IDENT = ...) at depth 1 inside the block starting at token index start ('{')"""
        depth = 0
        out = set()
        j = start
        while j < len(self.t):
            tok = self.t[j][1]
            if tok == "{":
                depth += 1
            elif tok == "}":
                depth -= 1
                if depth == 0:
                    return out, j
            elif depth == 1 and self.t[j][0] == "id" and j + 1 < len(self.t) and self.t[j + 1][1] == "=" and \
                    (j == start + 1 or self.t[j - 1][1] in (";", "{", "}")):
                out.add(tok)
            j += 1
        raise Unsupported("unbalanced block")

    def stmts(self):
        # returns the term for the rest of the block
        if self.peek() == "}":
            return "EUnit"
        tok = self.peek()
        if tok in ("debug_assert!", "debug_assert_eq!", "debug_assert_ne!", "assert!", "assert_eq!"):
            self.eat()
            self.skip_balanced("(", ")")
            if self.peek() == ";":
                self.eat()
            self.skipped_asserts += 1
            return self.stmts()
        if tok == "unsafe" and self.peek(1) == "{":
            self.eat()
            inner = self.block()
            if self.peek() == "}":
                return inner
            if self.peek() == ";":
                self.eat()
            return "(ELet %s %s %s)" % (q("_"), inner, self.stmts())
        if tok == "use":
            while self.eat() != ";":
                pass
            return self.stmts()
        if tok == "let":
            self.eat()
            if self.peek() == "mut":
                self.eat()
            if self.kind() != "id" or self.peek(1) not in ("=", ":"):
                raise Unsupported("pattern in let")
            x = self.eat()
            if self.peek() == ":":
                self.eat()
                self.skip_type()
            self.eat("=")
            e = self.expr()
            self.eat(";")
            return "(ELet %s %s %s)" % (q(x), e, self.stmts())
        if self.kind() == "id" and self.peek(1) == "=" and not tok.endswith("!"):
            x = self.eat()
            self.eat("=")
            e = self.expr()
            self.eat(";")
            return "(ELet %s %s %s)" % (q(x), e, self.stmts())
        if tok == "if":
            # statement-form `if` whose branches assign one variable and which is followed by more statements
            save = self.i
            self.eat()
            c = self.expr(no_struct=True)
            vs1, end1 = self.assigned_vars(self.i)
            after = self.t[end1 + 1][1] if end1 + 1 < len(self.t) else None
            if after == "else" and self.t[end1 + 2][1] == "{":
                vs2, end2 = self.assigned_vars(end1 + 2)
                follows = self.t[end2 + 1][1] if end2 + 1 < len(self.t) else None
                vs = vs1 | vs2
                if len(vs) == 1 and follows != "}":
                    v = next(iter(vs))
                    b1 = self.block_then_var(v)
                    self.eat("else")
                    b2 = self.block_then_var(v)
                    if self.peek() == ";":
                        self.eat()
                    return "(ELet %s (EIf %s %s %s) %s)" % (q(v), c, b1, b2, self.stmts())
            if after != "else" and self.t[self.i + 1][1] == "return":
                # `if c { return e; }` followed by the rest of the block
                self.eat("{")
                self.eat("return")
                r = self.expr()
                if self.peek() == ";":
                    self.eat()
                self.eat("}")
                return "(EIf %s (EReturn %s) %s)" % (c, r, self.stmts())
            self.i = save
        e = self.expr()
        if self.peek() == ";":
            self.eat()
            if self.peek() == "}":
                return "(ELet %s %s EUnit)" % (q("_"), e)
            return "(ELet %s %s %s)" % (q("_"), e, self.stmts())
        if self.peek() != "}":
            # block-like expression used as a statement
            return "(ELet %s %s %s)" % (q("_"), e, self.stmts())
        return e

    def block_then_var(self, v):
        """a branch block made of statements, evaluated for the final value of variable v"""
        self.eat("{")
        body = self.stmts_until_close_then("(EVar %s)" % q(v))
        self.eat("}")
        return body

    def stmts_until_close_then(self, final):
        if self.peek() == "}":
            return final
        tok = self.peek()
        if tok in ("debug_assert!", "debug_assert_eq!", "debug_assert_ne!", "assert!", "assert_eq!"):
            self.eat()
            self.skip_balanced("(", ")")
            if self.peek() == ";":
                self.eat()
            self.skipped_asserts += 1
            return self.stmts_until_close_then(final)
        if tok == "let":
            self.eat()
            if self.peek() == "mut":
                self.eat()
            x = self.eat()
            if self.peek() == ":":
                self.eat()
                self.skip_type()
            self.eat("=")
            e = self.expr()
            self.eat(";")
            return "(ELet %s %s %s)" % (q(x), e, self.stmts_until_close_then(final))
        if self.kind() == "id" and self.peek(1) == "=":
            x = self.eat()
            self.eat("=")
            e = self.expr()
            self.eat(";")
            return "(ELet %s %s %s)" % (q(x), e, self.stmts_until_close_then(final))
        raise Unsupported("statement in an assigning branch: %r" % tok)

    # -- statements of a procedure: list of Coq stmt terms
    def proc_stmts(self):
        out = []
        while self.peek() != "}":
            tok = self.peek()
            if tok in ("debug_assert!", "debug_assert_eq!", "debug_assert_ne!"):
                self.eat()
                self.skip_balanced("(", ")")
                if self.peek() == ";":
                    self.eat()
                self.skipped_asserts += 1
            elif tok == "unsafe" and self.peek(1) == "{":
                self.eat()
                self.eat("{")
                out += self.proc_stmts()
                self.eat("}")
            elif tok == "for" and self.peek(1) == "_" and self.peek(2) == "in":
                self.eat(); self.eat(); self.eat()
                lo = self.expr(no_struct=True, level=len(BINOPS) - 2)
                self.eat("..")
                hi = self.expr(no_struct=True, level=len(BINOPS) - 2)
                self.eat("{")
                body = self.proc_stmts()
                self.eat("}")
                out.append("SRepeat (EMeth1 %s \"saturating_sub\" %s) [%s]" % (hi, lo, "; ".join(body)))
            elif tok == "for" and self.kind(1) == "id" and self.peek(1) != "_" and self.peek(2) == "in":
                # for i in lo..hi { body }: the counter is an ordinary binding that starts at lo and goes
                # up by one after each round (what Range<usize>::next does); hi - lo rounds
                self.eat()
                ivar = self.eat()
                self.eat()
                lo = self.expr(no_struct=True, level=len(BINOPS) - 2)
                self.eat("..")
                hi = self.expr(no_struct=True, level=len(BINOPS) - 2)
                self.eat("{")
                body = self.proc_stmts()
                self.eat("}")
                body.append("SSet %s (EBin BAdd (EVar %s) (ELit 1))" % (q(ivar), q(ivar)))
                out.append("SLet %s %s" % (q(ivar), lo))
                out.append("SRepeat (EMeth1 %s \"saturating_sub\" %s) [%s]" % (hi, lo, "; ".join(body)))
            elif tok == "match" and self.kind(1) == "id" and self.peek(1) in self.closures and self.peek(2) == "(":
                # match f(args) { Ok(x) => <one call>, Err(e) => { .. } }: the closure is asked (its answer,
                # Ok = true / Err = false, comes from the script; None: it panics); the value carried by
                # the answer is not among the recorded arguments of the calls that receive it
                self.eat()
                f = self.eat()
                a = self.args()
                self.eat("{")
                arms = {}
                while self.peek() != "}":
                    tag = self.eat()
                    if tag not in ("Ok", "Err") or tag in arms:
                        raise Unsupported("arm %r" % tag)
                    self.eat("(")
                    bound = self.eat()
                    self.eat(")")
                    self.eat("=>")
                    if self.peek() == "{":
                        self.eat("{")
                        saved = self.dropvars
                        self.dropvars = saved | {bound}
                        body = self.proc_stmts()
                        self.dropvars = saved
                        self.eat("}")
                        if self.peek() == ",":
                            self.eat()
                    else:
                        depth, j = 0, self.i
                        while not (depth == 0 and self.t[j][1] in (",", "}")):
                            if self.t[j][1] in ("(", "[", "{"):
                                depth += 1
                            elif self.t[j][1] in (")", "]", "}"):
                                depth -= 1
                            j += 1
                        sub = Parser(self.t[self.i:j] + [("op", ";"), ("op", "}")])
                        sub.closures = self.closures
                        sub.dropvars = self.dropvars | {bound}
                        body = sub.proc_stmts()
                        self.i = j
                        if self.peek() == ",":
                            self.eat()
                    arms[tag] = body
                self.eat("}")
                if self.peek() == ";":
                    self.eat()
                if set(arms) != {"Ok", "Err"}:
                    raise Unsupported("match arms")
                out.append("SIfAsk false %s [%s] [%s] [%s]" % (q(f), "; ".join(a), "; ".join(arms["Ok"]), "; ".join(arms["Err"])))
            elif tok == "return" and self.peek(1) == "Some" and self.peek(2) == "(" and self.kind(3) == "id" and self.peek(4) == "::" and self.kind(5) == "id" and self.peek(6) == "(":
                # return Some(ptr::read(place)); : the read is recorded, then the procedure is left
                self.eat(); self.eat(); self.eat("("); self.eat(); self.eat()
                f = self.eat()
                a = self.args()
                self.eat(")")
                self.eat(";")
                out.append("SDo %s [%s]" % (q(f), "; ".join(a)))
                out.append("SReturn")
            elif tok == "return":
                self.eat()
                depth = 0
                while not (depth == 0 and self.peek() == ";"):
                    t = self.eat()
                    if t in ("(", "[", "{"):
                        depth += 1
                    elif t in (")", "]", "}"):
                        depth -= 1
                self.eat(";")
                out.append("SReturn")
            elif tok == "self" and self.peek(1) == "." and self.kind(2) == "id" and self.peek(3) == "(":
                # a method of the arena called for its effect: recorded under the method's name
                self.eat(); self.eat()
                f = self.eat()
                a = self.args()
                self.eat(";")
                out.append("SDo %s [%s]" % (q(f), "; ".join(a)))
            elif tok == "while":
                self.eat()
                c = self.expr(no_struct=True)
                self.eat("{")
                body = self.proc_stmts()
                self.eat("}")
                out.append("SWhile %s [%s]" % (c, "; ".join(body)))
            elif tok == "let":
                self.eat()
                if self.peek() == "mut":
                    self.eat()
                if self.kind() != "id" or self.peek(1) not in ("=", ":"):
                    raise Unsupported("pattern in let")
                x = self.eat()
                if self.peek() == ":":
                    self.eat()
                    self.skip_type()
                self.eat("=")
                e = self.expr()
                self.eat(";")
                out.append("SLet %s %s" % (q(x), e))
            elif self.kind() == "id" and self.peek(1) == "=":
                x = self.eat()
                self.eat("=")
                e = self.expr()
                self.eat(";")
                out.append("SSet %s %s" % (q(x), e))
            elif self.kind() == "id" and self.peek(1) in ("+", "-") and self.peek(2) == "=":
                x = self.eat()
                op = {"+": "BAdd", "-": "BSub"}[self.eat()]
                self.eat("=")
                e = self.expr()
                self.eat(";")
                out.append("SSet %s (EBin %s (EVar %s) %s)" % (q(x), op, q(x), e))
            elif tok == "if":
                self.eat()
                neg = False
                if self.peek() == "!" and self.kind(1) == "id" and self.peek(1) in self.closures and self.peek(2) == "(":
                    self.eat()
                    neg = True
                if self.kind() == "id" and self.peek() in self.closures and self.peek(1) == "(":
                    f = self.eat()
                    a = self.args()
                    head = "SIfAsk %s %s [%s]" % ("true" if neg else "false", q(f), "; ".join(a))
                else:
                    if neg:
                        raise Unsupported("negated condition")
                    head = "SIf %s" % self.expr(no_struct=True)
                self.eat("{")
                th = self.proc_stmts()
                self.eat("}")
                el = []
                if self.peek() == "else":
                    self.eat()
                    self.eat("{")
                    el = self.proc_stmts()
                    self.eat("}")
                out.append("%s [%s] [%s]" % (head, "; ".join(th), "; ".join(el)))
            elif self.kind() == "id" and self.peek(1) == "::" and self.kind(2) == "id" and self.peek(3) == "(":
                self.eat()
                self.eat()
                f = self.eat()
                # an argument that is a call of a caller-supplied closure (`ptr::write(p, f(i))`): the
                # closure runs first (recorded; it may panic), the call then receives its result, which
                # is not among the recorded arguments
                self.eat("(")
                a = []
                while self.peek() != ")":
                    if self.kind() == "id" and self.peek() in self.closures and self.peek(1) == "(":
                        c = self.eat()
                        ca = self.args()
                        out.append("SDoMay %s [%s]" % (q(c), "; ".join(ca)))
                    elif self.kind() == "id" and self.peek() in self.closures and self.peek(1) == "." and self.kind(2) == "id" and self.peek(3) == "(":
                        # a method of a caller-supplied object (`value.next()`: a clone): the same
                        c = self.eat()
                        self.eat()
                        m = self.eat()
                        ca = self.args()
                        out.append("SDoMay %s [%s]" % (q(c + "." + m), "; ".join(ca)))
                    elif self.kind() == "id" and self.peek() in self.dropvars and self.peek(1) in (",", ")"):
                        self.eat()      # the value a closure's answer carried
                    else:
                        a.append(self.expr())
                    if self.peek() == ",":
                        self.eat()
                self.eat(")")
                self.eat(";")
                out.append("%s %s [%s]" % ("SDoMay" if f in MAY_PANIC else "SDo", q(f), "; ".join(a)))
            elif self.kind() == "id" and self.peek(1) == "." and self.kind(2) == "id" and self.peek(3) == "(" and self.peek() != "self":
                # a method called for its effect on a local guard object: recorded under the method's name
                self.eat()
                self.eat()
                f = self.eat()
                a = self.args()
                self.eat(";")
                out.append("SDo %s [%s]" % (q(f), "; ".join(a)))
            elif self.kind() == "id" and self.peek(1) == "(":
                f = self.eat()
                a = self.args()
                self.eat(";")
                out.append("SDo %s [%s]" % (q(f), "; ".join(a)))
            else:
                raise Unsupported("statement %r" % tok)
        return out

    # -- expressions
    def expr(self, no_struct=False, level=0):
        if level == len(BINOPS):
            return self.unary(no_struct)
        ops, names = BINOPS[level]
        left = self.expr(no_struct, level + 1)
        while self.peek() in ops:
            # `<` could open generics only after `::`, which primary() handles; `|` could start a closure
            # only in primary position
            op = self.eat()
            right = self.expr(no_struct, level + 1)
            left = "(EBin %s %s %s)" % (names[op], left, right)
        return left

    def unary(self, no_struct):
        tok = self.peek()
        if tok == "!":
            self.eat()
            return "(ENot %s)" % self.unary(no_struct)
        if tok in ("*", "&"):
            self.eat()
            if self.peek() == "mut":
                self.eat()
            return self.unary(no_struct)
        if tok == "-":
            if self.kind(1) == "num":
                self.eat()
                return "(ENEG %s)" % self.primary(no_struct)      # only as the argument of offset(): see postfix
            raise Unsupported("negation")
        e = self.postfix(no_struct)
        while self.peek() == "as":
            self.eat()
            self.skip_cast_type()
        return e

    def args(self):
        self.eat("(")
        out = []
        while self.peek() != ")":
            out.append(self.expr())
            if self.peek() == ",":
                self.eat()
        self.eat(")")
        return out

    def postfix(self, no_struct):
        e = self.primary(no_struct)
        while True:
            tok = self.peek()
            if tok == ".":
                self.eat()
                if self.kind() not in ("id", "num"):
                    raise Unsupported("after `.`")
                m = self.eat()
                if self.peek() == "::":
                    if self.peek(1) == "<":
                        self.eat()
                        self.skip_balanced("<", ">")      # .cast::<u8>(): the type argument changes no value
                    else:
                        raise Unsupported("turbofish")
                if self.peek() == "(":
                    a = self.args()
                    if len(a) == 0 and (e == '(EVar "self")' or e.endswith(' "vec")')) and m == "as_ptr":
                        # the buffer pointer of the collection itself (as_ptr on anything else is the identity
                        # on addresses): the same field as as_mut_ptr
                        e = "(EMeth0 %s %s)" % (e, q("as_mut_ptr"))
                    elif len(a) == 0 and m in RECV_FNS0 and e != '(EVar "self")':
                        e = "(ECall1 %s %s)" % (q(m), e)
                    elif len(a) == 0:
                        e = "(EMeth0 %s %s)" % (e, q(m))
                    elif len(a) == 1 and e == '(EVar "self")' and m in SELF_FNS:
                        e = "(ECall1 %s %s)" % (q(m), a[0])
                    elif len(a) == 1 and m == "offset" and a[0].startswith("(ENEG "):
                        e = "(EMeth1 %s %s %s)" % (e, q("offset_back"), a[0][6:-1])
                    elif len(a) == 1:
                        e = "(EMeth1 %s %s %s)" % (e, q(m), a[0])
                    elif len(a) == 2 and e == '(EVar "self")':
                        # self.f(a, b): a call of the function f of the table; `self` stays in scope
                        e = "(ECall2 %s %s %s)" % (q(m), a[0], a[1])
                    else:
                        raise Unsupported("method with %d arguments" % len(a))
                else:
                    e = "(EMeth0 %s %s)" % (e, q(m))
            elif tok == "?":
                self.eat()
                e = "(ETry %s)" % e
            elif tok == "[" and self.index_ok:
                # s[i] on a slice made by from_raw_parts(_mut): the place, i.e. its address (`&` is transparent)
                self.eat()
                i = self.expr()
                self.eat("]")
                e = "(EMeth1 %s \"index\" %s)" % (e, i)
            else:
                return e

    def closure(self):
        self.eat("|")
        if self.peek() == "|":
            raise Unsupported("closure without parameter")
        x = self.eat()
        if self.peek() == ":":
            self.eat()
            self.skip_type()
        self.eat("|")
        body = self.block() if self.peek() == "{" else self.expr()
        return "(ELam %s %s)" % (q(x), body)

    def primary(self, no_struct):
        tok = self.peek()
        kind = self.kind()
        if tok == "(":
            self.eat()
            if self.peek() == ")":
                self.eat()
                return "EUnit"
            e = self.expr()
            self.eat(")")
            return e
        if tok == "{":
            return self.block()
        if tok == "|":
            return self.closure()
        if kind == "num":
            self.eat()
            v = re.sub(r"(usize|u64|u32|u8|isize)$", "", tok).replace("_", "")
            return "(ELit %d)" % int(v, 0)
        if tok in ("true", "false"):
            self.eat()
            return "(EBool %s)" % tok
        if tok == "matches!":
            # matches!(e, Some(x) if guard)  ==  match e { Some(x) => guard, None => false }
            self.eat()
            self.eat("(")
            e = self.expr()
            self.eat(",")
            if self.eat() != "Some":
                raise Unsupported("matches! pattern")
            self.eat("(")
            x = self.eat()
            self.eat(")")
            if self.peek() == "if":
                self.eat()
                g = self.expr()
            else:
                g = "(EBool true)"
            self.eat(")")
            return "(EMatchOpt %s %s %s (EBool false))" % (e, q(x), g)
        if tok in ("panic!", "unreachable!", "unimplemented!"):
            self.eat()
            self.skip_balanced("(", ")")
            return "EPanic"
        if tok == "if":
            self.eat()
            c = self.expr(no_struct=True)
            a = self.block()
            if self.peek() != "else":
                raise Unsupported("if without else in expression position")
            self.eat("else")
            b = self.primary(no_struct) if self.peek() == "if" else self.block()
            return "(EIf %s %s %s)" % (c, a, b)
        if tok == "return":
            self.eat()
            return "(EReturn %s)" % self.expr()
        if tok == "match":
            self.eat()
            s = self.expr(no_struct=True)
            self.eat("{")
            some_br = none_br = None
            ord_br = {}
            x = "_"
            while self.peek() != "}":
                pat = self.eat()
                while self.peek() == "::":
                    self.eat()
                    pat = self.eat()
                if pat in ("Less", "Equal", "Greater"):
                    self.eat("=>")
                    ord_br[pat] = self.block() if self.peek() == "{" else self.expr()
                elif pat in ("Some", "Ok"):
                    self.eat("(")
                    x = self.eat()
                    self.eat(")")
                    self.eat("=>")
                    some_br = self.block() if self.peek() == "{" else self.expr()
                elif pat in ("Included", "Excluded", "Unbounded"):
                    # match over core::ops::Bound; a bound is the record {tag: 0|1|2, n}
                    x = "_"
                    if pat != "Unbounded":
                        self.eat("(")
                        if self.peek() == "&":
                            self.eat()
                        x = self.eat()
                        self.eat(")")
                    self.eat("=>")
                    br = self.block() if self.peek() == "{" else self.expr()
                    bound_br = locals().setdefault("bound_br", {})
                    bound_br[pat] = (x, br)
                    if self.peek() == ",":
                        self.eat()
                    if self.peek() == "}" and set(bound_br) == {"Included", "Excluded", "Unbounded"}:
                        self.eat("}")
                        xi, bi = bound_br["Included"]
                        xe, be = bound_br["Excluded"]
                        _, bu = bound_br["Unbounded"]
                        tag = "(EMeth0 %s %s)" % (s, q("tag"))
                        return "(EIf (EBin BEq %s (ELit 0)) (ELet %s (EMeth0 %s %s) %s) (EIf (EBin BEq %s (ELit 1)) (ELet %s (EMeth0 %s %s) %s) %s))" % (
                            tag, q(xi), s, q("n"), bi, tag, q(xe), s, q("n"), be, bu)
                    continue
                elif pat in ("None", "Err", "_"):
                    if pat == "Err":
                        self.skip_balanced("(", ")")
                    self.eat("=>")
                    none_br = self.block() if self.peek() == "{" else self.expr()
                else:
                    raise Unsupported("match pattern %r" % pat)
                if self.peek() == ",":
                    self.eat()
            self.eat("}")
            if ord_br:
                m = re.match(r'^\(EMeth1 (.*) "cmp" (.*)\)$', s)
                if not m or set(ord_br) != {"Less", "Equal", "Greater"}:
                    raise Unsupported("match over an Ordering that is not `a.cmp(&b)` with three arms")
                a, b = split_cmp(s)
                return "(EMatchOrd %s %s %s %s %s)" % (a, b, ord_br["Less"], ord_br["Equal"], ord_br["Greater"])
            if some_br is None or none_br is None:
                raise Unsupported("match is not over Some/None")
            return "(EMatchOpt %s %s %s %s)" % (s, q(x), some_br, none_br)
        if tok == "unsafe" and self.peek(1) == "{":
            self.eat()
            return self.block()
        if kind == "id":
            # a path: a::b::c, possibly followed by a call or a struct literal
            segs = [self.eat()]
            while self.peek() == "::":
                self.eat()
                if self.peek() == "<":
                    # mem::size_of::<T>() / align_of::<T>(): a parameter of the translated function's
                    # environment ("size_of_T"); size_of::<usize>() is 8 on the 64-bit target modelled
                    if segs[-1] in ("size_of", "align_of") and self.kind(1) == "id" and self.peek(2) == ">" \
                            and self.peek(3) == "(" and self.peek(4) == ")":
                        self.eat("<")
                        ty = self.eat()
                        self.eat(">")
                        self.eat("(")
                        self.eat(")")
                        if ty in ("usize", "u64", "isize", "i64"):
                            return "(ELit 8)"
                        if not re.fullmatch(r"[A-Z]", ty):
                            raise Unsupported("size of a concrete type")     # e.g. FOOTER_SIZE stays opaque
                        return "(EVar %s)" % q(segs[-1] + "_" + ty)
                    raise Unsupported("turbofish")
                segs.append(self.eat())
            name = segs[-1]
            if self.peek() == "(":
                a = self.args()
                if name in ("Some", "Ok") and len(a) == 1:
                    return "(ESome %s)" % a[0]
                if name == "Err":
                    return "ENone"
                if name == "unreachable_unchecked":
                    return "EPanic"
                if segs == ["SetLenOnDrop", "new"] and len(a) == 1:
                    return a[0]          # the guard starts from the length it is given (and writes it back when dropped)
                if len(a) == 1:
                    return "(ECall1 %s %s)" % (q(name), a[0])
                if len(a) == 2:
                    return "(ECall2 %s %s %s)" % (q(name), a[0], a[1])
                raise Unsupported("call with %d arguments" % len(a))
            if name == "None":
                return "ENone"
            if self.peek() == "{" and not no_struct and name[0].isupper() and self.peek(2) in (":", ",", "}"):
                self.eat("{")
                fs = []
                while self.peek() != "}":
                    f = self.eat()
                    if self.peek() == ":":
                        self.eat()
                        fs.append("(%s, %s)" % (q(f), self.expr()))
                    else:
                        fs.append("(%s, EVar %s)" % (q(f), q(f)))
                    if self.peek() == ",":
                        self.eat()
                self.eat("}")
                return "(EStruct [%s])" % "; ".join(fs)
            if len(segs) == 1 and (name[0].islower() or name.isupper() or "_" in name):
                return "(EVar %s)" % q(name)
            # a function or variant named by path (CapacityOverflow, allocation_size_overflow, ...)
            return "(EPath %s)" % q(name)
        raise Unsupported("token %r" % tok)


def split_cmp(term):
    """(EMeth1 A "cmp" B) -> (A, B), splitting at the top-level occurrence of "cmp" """
    inner = term[len("(EMeth1 "):-1]
    depth = 0
    i = 0
    in_str = False
    while i < len(inner):
        c = inner[i]
        if c == '"':
            in_str = not in_str
        elif not in_str:
            if c == "(":
                depth += 1
            elif c == ")":
                depth -= 1
            elif c == " " and depth == 0 and inner[i + 1:].startswith('"cmp" '):
                return inner[:i], inner[i + 1 + len('"cmp" '):]
        i += 1
    raise Unsupported("cmp")


def find_fn(txt, name):
    """body of the function called `name`; `name#k` is the k-th function of that name in the file"""
    if name.startswith("impl:"):
        # "impl:Drop for Drain:drop": the function inside the impl block whose header contains that text
        _, header, fn = name.split(":")
        for m in re.finditer(r"\bimpl\b[^{;]*\{", txt):
            if re.sub(r"\s+", " ", header) in re.sub(r"\s+", " ", m.group(0)):
                b = m.end() - 1
                e = matching(txt, b, "{", "}")
                return find_fn(txt[b:e], fn)
        return None
    want = 1
    if "#" in name:
        name, k = name.split("#")
        want = int(k)
    seen = 0
    for m in re.finditer(r"\bfn\s+%s\b" % re.escape(name), txt):
        j = m.end()
        while txt[j].isspace():
            j += 1
        if txt[j] == "<":
            j = matching(txt, j, "<", ">")
        while txt[j].isspace():
            j += 1
        if txt[j] != "(":
            continue
        k = matching(txt, j, "(", ")")
        params = txt[j + 1:k - 1]
        b = txt.index("{", k)
        e = matching(txt, b, "{", "}")
        seen += 1
        if seen < want:
            continue
        return params, txt[b:e]
    return None


def param_names(params):
    out = []
    depth = 0
    cur = ""
    parts = []
    for c in params:
        if c in "<([":
            depth += 1
        elif c in ">)]":
            depth -= 1
        if c == "," and depth == 0:
            parts.append(cur)
            cur = ""
        else:
            cur += c
    if cur.strip():
        parts.append(cur)
    for p in parts:
        p = p.strip()
        if re.fullmatch(r"&?\s*('\w+\s+)?(mut\s+)?self", p):
            continue
        m = re.match(r"(mut\s+)?(\w+)\s*:", p)
        if not m:
            raise Unsupported("parameter %r" % p)
        out.append(m.group(2))
    return out


def matching_tok(toks, i):
    """index just after the `}` matching the `{` at token index i"""
    depth = 0
    for j in range(i, len(toks)):
        if toks[j][1] == "{":
            depth += 1
        elif toks[j][1] == "}":
            depth -= 1
            if depth == 0:
                return j + 1
    raise Unsupported("unbalanced braces")


def fix_path_vars(term):
    """a lone lower-case path segment used as a value is a variable; function names passed to
    unwrap_or_else are emitted as EPath by the caller context below"""
    return re.sub(r'\(EMeth1 (.*?) "unwrap_or_else" \(EVar ("[a-z_]+")\)\)', r'(EMeth1 \1 "unwrap_or_else" (EPath \2))', term)


def scan_body(toks):
    """lets, ifs and calls of a function body with their block paths (tuples of `{` indices)"""
    vals = [t[1] for t in toks]
    stack = []
    lets, ifs, calls = [], [], []
    i = 0
    while i < len(vals):
        v = vals[i]
        if v == "{":
            stack.append(i)
        elif v == "}":
            stack.pop()
        elif v == "let" and not (i + 1 < len(vals) and vals[i + 1] in ("Some", "Ok", "(")):
            j = i + 1
            if vals[j] == "mut":
                j += 1
            name = vals[j]
            if toks[j][0] == "id" and vals[j + 1] in ("=", ":"):
                k = j + 1
                depth = 0
                while not (vals[k] == "=" and depth == 0):
                    if vals[k] in "<([":
                        depth += 1
                    elif vals[k] in ">)]":
                        depth -= 1
                    k += 1
                start = k + 1
                depth = 0
                e = start
                while not (vals[e] == ";" and depth == 0):
                    if vals[e] in "({[":
                        depth += 1
                    elif vals[e] in ")}]":
                        depth -= 1
                    e += 1
                lets.append({"at": i, "name": name, "start": start, "end": e, "path": tuple(stack)})
        elif v == "if" and not (i + 1 < len(vals) and vals[i + 1] == "let"):
            ifs.append({"at": i, "start": i + 1, "path": tuple(stack)})
        elif toks[i][0] == "id" and i + 1 < len(vals) and vals[i + 1] == "(" and (i == 0 or vals[i - 1] != "fn"):
            calls.append({"at": i, "name": v, "open": i + 1, "path": tuple(stack)})
        i += 1
    return lets, ifs, calls


def extract_expr(toks, locator, inputs=()):
    """(term, position) of the located expression, wrapped in the `let`s in scope it depends on"""
    lets, ifs, calls = scan_body(toks)
    vals = [t[1] for t in toks]
    if locator[0] == "let":
        cands = [l for l in lets if l["name"] == locator[1]]
        if len(cands) < locator[2]:
            raise Unsupported("let %s #%d not found" % (locator[1], locator[2]))
        tgt = cands[locator[2] - 1]
        p = Parser(toks)
        p.i = tgt["start"]
        term = p.expr()
        if p.i != tgt["end"]:
            raise Unsupported("let right-hand side not fully parsed")
        pos, path, used = tgt["at"], tgt["path"], set(vals[tgt["start"]:tgt["end"]])
    elif locator[0] == "if":
        if len(ifs) < locator[1]:
            raise Unsupported("if #%d not found" % locator[1])
        tgt = ifs[locator[1] - 1]
        p = Parser(toks)
        p.i = tgt["start"]
        term = p.expr(no_struct=True)
        if p.peek() != "{":
            raise Unsupported("condition not followed by a block")
        pos, path, used = tgt["at"], tgt["path"], set(vals[tgt["start"]:p.i])
    elif locator[0] == "assert":
        # condition of the k-th assert!(cond [, message..])
        hits = [i for i in range(len(vals) - 1) if vals[i] in ("assert!",) and vals[i + 1] == "("]
        if len(hits) < locator[1]:
            raise Unsupported("assert! #%d not found" % locator[1])
        at = hits[locator[1] - 1]
        p = Parser(toks)
        p.i = at + 2
        term = p.expr()
        if p.peek() not in (",", ")"):
            raise Unsupported("assert condition not fully parsed")
        stack = []
        for i in range(at):
            if vals[i] == "{":
                stack.append(i)
            elif vals[i] == "}":
                stack.pop()
        pos, path, used = at, tuple(stack), set(vals[at + 2:p.i])
    elif locator[0] == "field":
        # value of the k-th `NAME: expr` field initialiser of a struct literal
        _, field, k = locator
        hits = [i for i in range(1, len(vals) - 1) if vals[i] == field and vals[i + 1] == ":" and vals[i - 1] in ("{", ",")]
        if len(hits) < k:
            raise Unsupported("field initialiser %s #%d not found" % (field, k))
        at = hits[k - 1]
        p = Parser(toks)
        p.i = at + 2
        term = p.expr()
        if p.peek() not in (",", "}"):
            raise Unsupported("field initialiser not fully parsed")
        stack = []
        for i in range(at):
            if vals[i] == "{":
                stack.append(i)
            elif vals[i] == "}":
                stack.pop()
        pos, path, used = at, tuple(stack[:-1]), set(vals[at + 2:p.i])
    elif locator[0] == "assign":
        # right-hand side of the k-th `<place>.FIELD = expr;`
        _, field, k = locator
        hits = [i for i in range(2, len(vals) - 1) if vals[i] == field and vals[i - 1] == "." and vals[i + 1] == "="]
        if len(hits) < k:
            raise Unsupported("assignment to .%s #%d not found" % (field, k))
        at = hits[k - 1]
        p = Parser(toks)
        p.i = at + 2
        term = p.expr()
        if p.peek() != ";":
            raise Unsupported("assignment right-hand side not fully parsed")
        stack = []
        for i in range(at):
            if vals[i] == "{":
                stack.append(i)
            elif vals[i] == "}":
                stack.pop()
        pos, path, used = at, tuple(stack), set(vals[at + 2:p.i])
    else:
        _, callee, k, argi = locator
        cands = [c for c in calls if c["name"] == callee]
        if len(cands) < k:
            raise Unsupported("call %s #%d not found" % (callee, k))
        tgt = cands[k - 1]
        # token spans of the arguments: split at top-level commas
        spans = []
        j = tgt["open"] + 1
        depth = 0
        a0 = j
        while True:
            v = vals[j]
            if v in "({[":
                depth += 1
            elif v in ")}]":
                if depth == 0:
                    if j > a0:
                        spans.append((a0, j))
                    break
                depth -= 1
            elif v == "," and depth == 0:
                spans.append((a0, j))
                a0 = j + 1
            j += 1
        if argi >= len(spans):
            raise Unsupported("argument index")
        p = Parser(toks)
        p.i = spans[argi][0]
        term = p.expr()
        if p.i != spans[argi][1]:
            raise Unsupported("argument not fully parsed")
        pos, path, used = tgt["at"], tgt["path"], set(vals[spans[argi][0]:spans[argi][1]])
    # wrap the lets in scope (enclosing blocks) that the expression refers to: going backwards, a
    # binding is needed if its name is referred to by what follows and not yet bound by a later let
    needed = set(used) - set(inputs)      # inputs: names supplied by the environment, not by their `let`
    wrapped = []
    for l in reversed([l for l in lets if l["at"] < pos and path[:len(l["path"])] == l["path"]]):
        if l["name"] in needed:
            try:
                p = Parser(toks)
                p.i = l["start"]
                rhs = p.expr()
                if p.i != l["end"]:
                    raise Unsupported("let right-hand side not fully parsed")
            except (Unsupported, ValueError, IndexError):
                continue
            needed.discard(l["name"])
            needed |= set(vals[l["start"]:l["end"]]) - set(inputs)
            wrapped.append((l["name"], rhs, True, l))
    for name, rhs, _, l in wrapped:
        term = "(ELet %s %s %s)" % (q(name), rhs, term)
    return term


def translate(repo):
    notes = []
    fns = []
    cache = {}
    for path, name in LEAVES:
        if path not in cache:
            try:
                cache[path] = strip_comments(open(os.path.join(repo, path)).read())
            except OSError:
                cache[path] = ""
        try:
            found = find_fn(cache[path], name)
            if not found:
                raise Unsupported("function not found")
            params, body = found
            p = Parser(tokenize(body))
            term = p.block()
            if p.i != len(p.t):
                raise Unsupported("trailing tokens")
            term = fix_path_vars(term)
            fns.append((name, param_names(params), term))
            if p.skipped_asserts:
                notes.append("%s: %d debug assertion(s) not translated" % (name, p.skipped_asserts))
        except (Unsupported, ValueError, IndexError) as e:
            notes.append("%s: NOT TRANSLATED (%s)" % (name, e))
    for part in PARTS:
        kind = part[0] if part[0] in ("cond", "arm") else "fn"
        path = part[1] if kind != "fn" else part[0]
        fname = part[2] if kind != "fn" else part[1]
        newname = part[-1]
        if path not in cache:
            try:
                cache[path] = strip_comments(open(os.path.join(repo, path)).read())
            except OSError:
                cache[path] = ""
        try:
            found = find_fn(cache[path], fname)
            if not found:
                raise Unsupported("function not found")
            params, body = found
            toks = tokenize(body)
            if kind == "fn":
                p = Parser(toks)
                term = p.block()
                if p.i != len(p.t):
                    raise Unsupported("trailing tokens")
            elif kind == "cond":
                vals = [t[1] for t in toks]
                i = vals.index("if")
                p = Parser(toks)
                p.i = i + 1
                term = p.expr(no_struct=True)
                rest = "".join(vals[p.i:p.i + 12])
                if not (rest.startswith("{returnOk(());}") or rest.startswith("{return;}")):
                    raise Unsupported("the first `if` does not guard a bare early return: %s" % rest[:30])
                if "if" in vals[:i]:
                    raise Unsupported("not the first statement")
            else:
                scrut, variant = part[3], part[4]
                vals = [t[1] for t in toks]
                term = None
                for i in range(len(vals) - 2):
                    if vals[i] == "match" and vals[i + 1] == scrut and vals[i + 2] == "{":
                        j = i + 3
                        depth = 0
                        while j < len(vals):
                            if vals[j] in "({[":
                                depth += 1
                            elif vals[j] in ")}]":
                                if depth == 0:
                                    break
                                depth -= 1
                            elif depth == 0 and vals[j] == variant and vals[j + 1] == "=>":
                                p = Parser(toks)
                                p.i = j + 2
                                term = p.block() if p.peek() == "{" else p.expr()
                                if p.peek() not in (",", "}"):
                                    raise Unsupported("arm does not end at `,`")
                                break
                            j += 1
                        break
                if term is None:
                    raise Unsupported("arm %s of match %s not found" % (variant, scrut))
            term = fix_path_vars(term)
            fns.append((newname, param_names(params), term))
        except (Unsupported, ValueError, IndexError) as e:
            notes.append("%s: NOT TRANSLATED (%s)" % (newname, e))
    for part in EXPRS:
        inputs = ()
        if part[0] != "expr":
            path, fname = part
            newname, locator = fname, None
        else:
            _, path, fname, locator, newname = part[:5]
            inputs = part[5] if len(part) > 5 else ()
        if path not in cache:
            try:
                cache[path] = strip_comments(open(os.path.join(repo, path)).read())
            except OSError:
                cache[path] = ""
        try:
            found = find_fn(cache[path], fname)
            if not found:
                raise Unsupported("function not found")
            params, body = found
            toks = tokenize(body)
            if locator is None:
                p = Parser(toks)
                term = p.block()
                if p.i != len(p.t):
                    raise Unsupported("trailing tokens")
            else:
                term = extract_expr(toks, locator, inputs)
            ps = param_names(params)
            if locator is None and fname in RECV_FNS0:
                ps = ["self"] + ps          # called as a function of its receiver
            fns.append((newname, ps, fix_path_vars(term)))
        except (Unsupported, ValueError, IndexError) as e:
            notes.append("%s: NOT TRANSLATED (%s)" % (newname, e))
    consts = []
    opaque = []
    txt = cache.get(CONST_FILE) or strip_comments(open(os.path.join(repo, CONST_FILE)).read())
    for m in re.finditer(r"^const\s+(\w+)\s*:\s*usize\s*=", txt, flags=re.M):
        name = m.group(1)
        # the initialiser runs to the `;` at nesting depth 0
        j = m.end()
        depth = 0
        k = j
        while k < len(txt):
            c = txt[k]
            if c in "({[":
                depth += 1
            elif c in ")}]":
                depth -= 1
            elif c == ";" and depth == 0:
                break
            k += 1
        init = txt[j:k]
        try:
            p = Parser(tokenize(init))
            term = p.expr()
            if p.i != len(p.t):
                raise Unsupported("trailing tokens")
            consts.append((name, fix_path_vars(term)))
        except (Unsupported, ValueError, IndexError) as e:
            opaque.append(name)
            notes.append("const %s: opaque (%s)" % (name, e))
    return fns, consts, opaque, notes


def emit(repo):
    fns, consts, opaque, notes = translate(repo)
    out = ["(* GENERATED by tools/rs2v.py from /repo/src — do not edit.",
           "   The arithmetic leaf functions and usize constants of the crate as terms of RustSem.expr."]
    for n in notes:
        out.append("   - " + n.replace("*)", "* )").replace("(*", "( *"))
    out.append("*)")
    out.append("From BV Require Import Word RustSem.")
    out.append("From Coq Require Import String.")
    out.append("Open Scope string_scope.")
    out.append("Open Scope N_scope.")
    out.append("Definition src_fns : fntab := [")
    out.append(";\n".join('  (%s, mkFn [%s]\n    %s)' % (q(n), "; ".join(q(p) for p in ps), t) for n, ps, t in fns))
    out.append("].")
    frames = []
    for path, fname, label, text in FRAMES:
        try:
            src = strip_comments(open(os.path.join(repo, path)).read())
            if fname == "*":
                ok = text in re.sub(r"\s+", "", src)
            else:
                found = find_fn(src, fname)
                ok = bool(found) and text in re.sub(r"\s+", "", found[1])
        except OSError:
            ok = False
        frames.append((label, ok, path))
    # one list per part of the crate, so that a rewrite in one part fails only that part's obligation
    for name, pred in (("src_frames", lambda p: p == "src/lib.rs"),
                       ("src_frames_vec", lambda p: p in ("src/collections/vec.rs", "src/collections/raw_vec.rs")),
                       ("src_frames_string", lambda p: p == "src/collections/string.rs"),
                       ("src_frames_box", lambda p: p == "src/boxed.rs")):
        out.append("Definition %s : list (string * bool) := [" % name)
        out.append(";\n".join("  (%s, %s)" % (q(l), "true" if ok else "false") for l, ok, pth in frames if pred(pth)))
        out.append("].")
    procs = []
    for pr in PROCS:
        path, fname, newname = pr[:3]
        try:
            src = strip_comments(open(os.path.join(repo, path)).read())
            found = find_fn(src, fname)
            if not found:
                raise Unsupported("function not found")
            params, body = found
            opts = pr[4] if len(pr) > 4 else {}
            for a, b in opts.get("rename", []):
                # fields of the receiver that the procedure updates, read as local variables
                body = body.replace(a, b)
            toks = tokenize(body)
            p = Parser(toks)
            p.closures = set(param_names(params)) | set(opts.get("closures", []))
            p.index_ok = bool(opts.get("index"))
            if len(pr) > 3:
                kind, kth = pr[3]
                hits = [i for i, t in enumerate(toks) if t[1] == kind]
                if len(hits) < kth:
                    raise Unsupported("%s #%d not found" % (kind, kth))
                # parse exactly one statement starting there: wrap by stopping at the matching brace
                p.i = hits[kth - 1]
                if kind == "while":
                    p.eat("while")
                    c = p.expr(no_struct=True)
                    p.eat("{")
                    bodyss = p.proc_stmts()
                    p.eat("}")
                    ss = ["SWhile %s [%s]" % (c, "; ".join(bodyss))]
                else:
                    # one `for` statement: parse it with the statement parser, stopping after it
                    end = matching_tok(toks, next(j for j in range(p.i, len(toks)) if toks[j][1] == "{"))
                    sub = Parser(toks[p.i:end] + [("op", "}")])
                    sub.closures = p.closures
                    sub.index_ok = p.index_ok
                    ss = sub.proc_stmts()
            else:
                p.eat("{")
                ss = p.proc_stmts()
                p.eat("}")
                if p.i != len(p.t):
                    raise Unsupported("trailing tokens")
            procs.append((newname, param_names(params), ss))
        except (Unsupported, ValueError, IndexError, OSError) as e:
            out.insert(2, "   - proc %s: NOT TRANSLATED (%s)" % (newname, e))
    out.append("Definition src_procs : list (string * procdef) := [")
    out.append(";\n".join('  (%s, mkProc [%s]\n    [%s])' % (q(n), "; ".join(q(x) for x in ps), ";\n     ".join(fix_path_vars(x) for x in ss)) for n, ps, ss in procs))
    out.append("].")
    # the unsafe auto-trait impls of the crate: exactly these, with exactly these bounds
    expected_auto = [
        ("src/lib.rs", "unsafeimplSyncforEmptyChunkFooter{}"),
        ("src/lib.rs", "unsafeimpl<constMIN_ALIGN:usize>SendforBump<MIN_ALIGN>{}"),
        ("src/collections/vec.rs", "unsafeimpl<'bump,T:Send>SendforIntoIter<'bump,T>{}"),
        ("src/collections/vec.rs", "unsafeimpl<'bump,T:Sync>SyncforIntoIter<'bump,T>{}"),
        ("src/collections/vec.rs", "unsafeimpl<'a,'bump,T:Sync>SyncforDrain<'a,'bump,T>{}"),
        ("src/collections/vec.rs", "unsafeimpl<'a,'bump,T:Send>SendforDrain<'a,'bump,T>{}"),
        ("src/collections/string.rs", "unsafeimpl<'a,'bump>SyncforDrain<'a,'bump>{}"),
        ("src/collections/string.rs", "unsafeimpl<'a,'bump>SendforDrain<'a,'bump>{}"),
    ]
    auto = []
    total = 0
    for root, _, files in os.walk(os.path.join(repo, "src")):
        for fn in files:
            if fn.endswith(".rs"):
                txt = strip_comments(open(os.path.join(root, fn)).read())
                total += len(re.findall(r"unsafe\s+impl\b[^{;]*\b(?:Send|Sync)\s+for\b", txt))
    for i, (path, text) in enumerate(expected_auto):
        try:
            flat = re.sub(r"\s+", "", strip_comments(open(os.path.join(repo, path)).read()))
            auto.append(("auto_trait_impl_%d" % i, text in flat))
        except OSError:
            auto.append(("auto_trait_impl_%d" % i, False))
    auto.append(("no_other_unsafe_auto_trait_impl", total == len(expected_auto)))
    out.append("Definition src_auto_trait_impls : list (string * bool) := [")
    out.append(";\n".join("  (%s, %s)" % (q(l), "true" if ok else "false") for l, ok in auto))
    out.append("].")
    out.append("Definition src_consts : list (string * expr) := [")
    out.append(";\n".join("  (%s, %s)" % (q(n), t) for n, t in consts))
    out.append("].")
    out.append("Definition src_opaque : list string := [%s]." % "; ".join(q(n) for n in opaque))
    return "\n".join(out) + "\n"


if __name__ == "__main__":
    sys.stdout.write(emit(sys.argv[1] if len(sys.argv) > 1 else "/repo"))
