#!/bin/bash
# Reverses each `fix:` commit of known_findings.json in /repo's working tree, runs the
# property's quick check and restores the tree: every fixed defect must be reported again.
# (F9's fix was later rearranged by the hook commit 75664ef, so its reversal is spelled out.)
cd /verif
git -C /repo diff --quiet || { echo "/repo has local changes, refusing"; exit 2; }
for pair in 12b64bc:C08 534825b:C09 253e25c:C09 396b740:C04 484707b:C11 2ab4f2f:C07 2b95d9f:C13 5d8b743:C16 8b53708:C19 c17a0d4:C14 08fdd38:C05 f06ef89:C13 6017329:C14; do
  c=${pair%%:*}; p=${pair##*:}
  d=$(mktemp)
  git -C /repo show $c -- src > $d
  if ! git -C /repo apply -R $d 2>/dev/null; then echo "$c $p: reverse patch does not apply"; rm -f $d; continue; fi
  echo "$c $p: $(./bin/check $p --tier quick 2>&1 | grep -m1 VIOLATION || echo NOT-REPORTED)"
  git -C /repo checkout -- .; rm -f $d
done
# F9: stores into the shared static empty chunk
python3 - <<'PY'
p='/repo/src/lib.rs'; s=open(p).read()
s=s.replace("        if !self.is_empty() {\n            self.ptr.set(ptr);","        {\n            self.ptr.set(ptr);",1)
open(p,'w').write(s)
PY
echo "4b4c4fe C20: $(./bin/check C20 --tier quick 2>&1 | grep -m1 VIOLATION || echo NOT-REPORTED)"
git -C /repo checkout -- .
