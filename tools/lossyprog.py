#!/usr/bin/env python3
"""Reads the decision structure of the lossy UTF-8 decoder out of /repo's source text.

`Utf8LossyChunksIter::next` (src/collections/str/lossy.rs) is a loop whose body decides, from the
lead byte's width `w` and the following bytes, whether the scan continues or an error chunk ends at
the current index.  That body is a small straight-line program per width:

    LArms [(lo,hi,lo1,hi1); ..]   match (byte, safe_get(self.source, i)) { (A, B) => (), .. _ => error!() }
    LCont mask tag                if safe_get(self.source, i) & mask != TAG_CONT_U8 { error!(); }
    LAdv                          i += 1;
    LFail                         error!();

This module parses exactly that shape into the Coq value `lossy_prog_actual` (coq/Utf8Prog.v gives
it meaning; coq/LossyProgOk.v proves it equal to the model's `scan_step`).  Anything it does not
recognise becomes `LUnknown`, which no proof accepts.
"""
import os
import re
import sys

sys.path.insert(0, os.path.dirname(os.path.abspath(__file__)))
from sigfacts import strip_comments, matching


def num(tok):
    tok = tok.strip().replace("_", "")
    tok = re.sub(r"(u8|usize|u32)$", "", tok)
    return int(tok, 16) if tok.lower().startswith("0x") else int(tok)


def rng(tok):
    tok = tok.strip()
    m = re.fullmatch(r"(\w+)\s*\.\.=\s*(\w+)", tok)
    if m:
        return num(m.group(1)), num(m.group(2))
    m = re.fullmatch(r"(\w+)\s*\.\.\s*(\w+)", tok)
    if m:
        return num(m.group(1)), num(m.group(2)) - 1
    return num(tok), num(tok)


def parse_steps(body, consts):
    """body: text between the braces of one `w => { .. }` arm"""
    steps = []
    j = 0
    n = len(body)
    while j < n:
        if body[j].isspace():
            j += 1
            continue
        rest = body[j:]
        m = re.match(r"i\s*\+=\s*1\s*;", rest)
        if m:
            steps.append("LAdv")
            j += m.end()
            continue
        m = re.match(r"error!\s*\(\s*\)\s*;?", rest)
        if m:
            steps.append("LFail")
            j += m.end()
            continue
        m = re.match(r"if\s+safe_get\s*\(\s*self\.source\s*,\s*i\s*\)\s*&\s*(\w+)\s*!=\s*(\w+)\s*\{\s*error!\s*\(\s*\)\s*;?\s*\}", rest)
        if m:
            mask = num(m.group(1))
            tag = consts.get(m.group(2))
            if tag is None:
                try:
                    tag = num(m.group(2))
                except ValueError:
                    steps.append("LUnknown")
                    return steps
            steps.append("LCont %d %d" % (mask, tag))
            j += m.end()
            continue
        m = re.match(r"match\s*\(\s*byte\s*,\s*safe_get\s*\(\s*self\.source\s*,\s*i\s*\)\s*\)\s*\{", rest)
        if m:
            ob = j + m.end() - 1
            cb = matching(body, ob, "{", "}")
            inner = body[ob + 1:cb - 1]
            arms = []
            ok = True
            k = 0
            saw_default = False
            while k < len(inner):
                if inner[k].isspace() or inner[k] == ",":
                    k += 1
                    continue
                r2 = inner[k:]
                am = re.match(r"\(\s*([^,()]+?)\s*,\s*([^,()]+?)\s*\)\s*=>\s*(\(\s*\)|\{\s*\})\s*,?", r2)
                if am:
                    try:
                        a, b = rng(am.group(1)), rng(am.group(2))
                    except ValueError:
                        ok = False
                        break
                    arms.append((a[0], a[1], b[0], b[1]))
                    k += am.end()
                    continue
                dm = re.match(r"_\s*=>\s*(\{\s*error!\s*\(\s*\)\s*;?\s*\}|error!\s*\(\s*\))\s*,?", r2)
                if dm:
                    saw_default = True
                    k += dm.end()
                    continue
                ok = False
                break
            if not ok or not saw_default:
                steps.append("LUnknown")
                return steps
            steps.append("LArms [%s]" % "; ".join("(%d, %d, %d, %d)" % a for a in arms))
            j = cb
            continue
        steps.append("LUnknown")
        return steps
    return steps


def analyse(repo):
    path = os.path.join(repo, "src/collections/str/lossy.rs")
    notes = []
    bad = {"ascii": 0, "cases": [], "default": ["LUnknown"]}
    if not os.path.exists(path):
        return bad, ["lossy.rs not found"]
    txt = strip_comments(open(path).read())
    m = re.search(r"impl\s*<[^>]*>\s*Iterator\s+for\s+Utf8LossyChunksIter[^{]*\{", txt)
    if not m:
        return bad, ["impl Iterator for Utf8LossyChunksIter not found"]
    body = txt[m.end() - 1:matching(txt, m.end() - 1, "{", "}")]
    consts = {c.group(1): num(c.group(2)) for c in re.finditer(r"const\s+(\w+)\s*:\s*u8\s*=\s*(\w+)\s*;", body)}
    am = re.search(r"if\s+byte\s*<\s*(\w+)\s*\{\s*\}\s*else\s*\{", body)
    if not am:
        return bad, ["`if byte < N {} else {` not found"]
    try:
        ascii_bound = num(am.group(1))
    except ValueError:
        return bad, ["ascii bound is not a literal"]
    wm = re.search(r"let\s+w\s*=\s*core_str::utf8_char_width\s*\(\s*byte\s*\)\s*;", body)
    if not wm:
        notes.append("w is not utf8_char_width(byte)")
        return bad, notes
    mm = re.search(r"match\s+w\s*\{", body[am.end():])
    if not mm:
        return bad, ["`match w {` not found"]
    ob = am.end() + mm.end() - 1
    cb = matching(body, ob, "{", "}")
    inner = body[ob + 1:cb - 1]
    cases = []
    default = None
    k = 0
    while k < len(inner):
        if inner[k].isspace() or inner[k] == ",":
            k += 1
            continue
        hm = re.match(r"(\w+)\s*=>\s*\{", inner[k:])
        if not hm:
            notes.append("unrecognised arm of `match w` at: %r" % inner[k:k + 40])
            return bad, notes
        o2 = k + hm.end() - 1
        c2 = matching(inner, o2, "{", "}")
        steps = parse_steps(inner[o2 + 1:c2 - 1], consts)
        if hm.group(1) == "_":
            default = steps
        else:
            try:
                cases.append((num(hm.group(1)), steps))
            except ValueError:
                notes.append("width arm is not a literal: %s" % hm.group(1))
                return bad, notes
        k = c2
    # the frame around the decision program: the loop, the byte read, what an error chunk is made of,
    # what safe_get answers past the end.  Compared as whitespace-free text.
    flat = re.sub(r"\s+", "", body)
    frame = ["letmuti=0;whilei<self.source.len(){leti_=i;letbyte=unsafe_get(self.source,i);i+=1;ifbyte<",
             "valid:str::from_utf8_unchecked(&self.source[0..i_]),broken:&self.source[i_..i],};self.source=&self.source[i..];returnSome(r);",
             "fnsafe_get(xs:&[u8],i:usize)->u8{ifi>=xs.len(){0}else{unsafe_get(xs,i)}}",
             "fnunsafe_get(xs:&[u8],i:usize)->u8{unsafe{*xs.get_unchecked(i)}}",
             "letr=Utf8LossyChunk{valid:unsafe{str::from_utf8_unchecked(self.source)},broken:&[],};self.source=&[];Some(r)}",
             "ifself.source.is_empty(){returnNone;}"]
    for fr in frame:
        if fr not in flat:
            notes.append("frame text not found: " + fr[:60])
            default = (default or []) + ["LUnknown"]
    if default is None:
        default = ["LUnknown"]
        notes.append("no default arm in `match w`")
    return {"ascii": ascii_bound, "cases": cases, "default": default}, notes


def emit(repo):
    p, notes = analyse(repo)
    cm = "".join("\n   - " + n.replace("*)", "* )").replace("(*", "( *") for n in notes)
    cases = ";\n     ".join("(%d, [%s])" % (w, "; ".join(st)) for w, st in p["cases"])
    return f"""(* GENERATED by tools/gen_actual.py (tools/lossyprog.py) from /repo/src/collections/str/lossy.rs — do not edit.
   The decision structure of Utf8LossyChunksIter::next as the source text has it.{cm} *)
From BV Require Import Word Utf8 Utf8Prog.
Definition lossy_prog_actual : lprog :=
  mkLprog {p['ascii']}
    [{cases}]
    [{"; ".join(p['default'])}].
"""


if __name__ == "__main__":
    print(emit(sys.argv[1] if len(sys.argv) > 1 else "/repo"))
