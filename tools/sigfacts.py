#!/usr/bin/env python3
"""Reads the borrow-relevant facts of the public API out of /repo's source text.

The facts are the five (six) booleans of coq/Borrow.v's `facts` record.  Each is
decided from the *signatures* a client's borrow checking depends on:

  f_alloc_shared  every `pub fn` of `impl Bump` that takes `&self` and returns a
                  reference returns it with the elided (= self's) lifetime, the
                  core allocation methods exist with a `&self` receiver, and every
                  `pub fn` of the collections / Box that takes `&'x Bump` returns a
                  type that carries 'x
  f_reset_excl    `pub fn reset(&mut self)`
  f_iter_excl     `pub fn iter_allocated_chunks(&mut self) -> ChunkIter<'_ ..>`
  f_send          `unsafe impl .. Send for Bump ..`
  f_sync          some `impl .. Sync for Bump ..` exists
  f_coll_send     some `impl .. Send for Vec|RawVec|String ..` exists

Anything the parser does not recognise makes the corresponding *safety* fact false
(the proof obligation then fails and the compile probe is asked for a failing program).
"""
import os
import re
import sys

CORE_ALLOC = ["alloc", "alloc_with", "alloc_str", "alloc_slice_copy", "alloc_slice_clone",
              "alloc_slice_fill_with", "alloc_slice_fill_iter"]


def strip_comments(txt):
    out = []
    in_block = 0
    for line in txt.split("\n"):
        res = []
        i = 0
        in_str = False
        while i < len(line):
            c2 = line[i:i + 2]
            if in_block:
                if c2 == "*/":
                    in_block -= 1
                    i += 2
                    continue
                if c2 == "/*":
                    in_block += 1
                    i += 2
                    continue
                i += 1
                continue
            if in_str:
                if line[i] == "\\":
                    i += 2
                    continue
                if line[i] == '"':
                    in_str = False
                res.append(" ")
                i += 1
                continue
            if c2 == "//":
                break
            if c2 == "/*":
                in_block += 1
                i += 2
                continue
            if line[i] == '"':
                in_str = True
                res.append(" ")
                i += 1
                continue
            res.append(line[i])
            i += 1
        out.append("".join(res))
    return "\n".join(out)


def matching(txt, i, open_c, close_c):
    """index just after the bracket that closes the one at txt[i]"""
    depth = 0
    j = i
    while j < len(txt):
        c = txt[j]
        if c == open_c:
            depth += 1
        elif c == close_c:
            # `->` inside generics is not a closing angle bracket
            if not (close_c == ">" and j > 0 and txt[j - 1] == "-"):
                depth -= 1
                if depth == 0:
                    return j + 1
        j += 1
    return len(txt)


def functions(txt):
    """[(pos, vis, name, params, ret)] for every fn item in the (comment-free) text"""
    out = []
    for m in re.finditer(r"\b(pub(?:\([a-z]+\))?\s+)?(?:const\s+)?(unsafe\s+)?fn\s+(\w+)\s*", txt):
        j = m.end()
        if j < len(txt) and txt[j] == "<":
            j = matching(txt, j, "<", ">")
        while j < len(txt) and txt[j].isspace():
            j += 1
        if j >= len(txt) or txt[j] != "(":
            continue
        k = matching(txt, j, "(", ")")
        params = txt[j + 1:k - 1]
        rest = txt[k:k + 400]
        rm = re.match(r"\s*->\s*(.*?)(?:\bwhere\b|\{|;)", rest, flags=re.S)
        ret = rm.group(1).strip() if rm else ""
        out.append({"pos": m.start(), "pub": bool(m.group(1)) and "(" not in (m.group(1) or ""),
                    "unsafe": bool(m.group(2)), "name": m.group(3),
                    "params": " ".join(params.split()), "ret": " ".join(ret.split())})
    return out


def impl_headers(txt):
    return [(m.start(), " ".join(m.group(0).split())) for m in re.finditer(r"^(?:unsafe\s+)?impl\b[^{]*", txt, flags=re.M)]


def enclosing_impl(heads, pos):
    best = ""
    for p, h in heads:
        if p <= pos:
            best = h
        else:
            break
    return best


def receiver(params):
    first = params.split(",")[0].strip()
    if re.fullmatch(r"&\s*mut\s+self", first):
        return "&mut self"
    if re.fullmatch(r"&\s*self", first):
        return "&self"
    m = re.fullmatch(r"&\s*'(\w+)\s+(mut\s+)?self", first)
    if m:
        return ("&mut self" if m.group(2) else "&self") + " '" + m.group(1)
    if re.fullmatch(r"(mut\s+)?self", first):
        return "self"
    return ""


def analyse(repo):
    src = os.path.join(repo, "src")
    files = {}
    for d, _dirs, fs in os.walk(src):
        for f in fs:
            if f.endswith(".rs"):
                p = os.path.join(d, f)
                files[os.path.relpath(p, repo)] = strip_comments(open(p).read())
    notes = []
    lib = files.get("src/lib.rs", "")
    lib_heads = impl_headers(lib)
    lib_fns = functions(lib)
    bump_fns = [f for f in lib_fns if re.search(r"\bfor\b", enclosing_impl(lib_heads, f["pos"])) is None
                and re.search(r"impl(<[^{]*>)?\s+Bump\b", enclosing_impl(lib_heads, f["pos"]))]

    # ---- f_alloc_shared
    alloc_shared = True
    names = {f["name"]: f for f in bump_fns if f["pub"]}
    for n in CORE_ALLOC:
        f = names.get(n)
        if not f or receiver(f["params"]) != "&self":
            alloc_shared = False
            notes.append("alloc_shared: Bump::%s is missing or does not take plain &self (%s)" % (n, f["params"] if f else "-"))
    for f in bump_fns:
        if not f["pub"] or f["unsafe"]:
            continue
        rc = receiver(f["params"])
        if rc.startswith("&self") and "&" in f["ret"]:
            lts = set(re.findall(r"'(\w+)", f["ret"]))
            own = set(re.findall(r"'(\w+)", rc))
            if lts - own - {"_"}:
                alloc_shared = False
                notes.append("alloc_shared: Bump::%s returns a reference with a lifetime not tied to &self: %s" % (f["name"], f["ret"]))
    for path in ("src/collections/vec.rs", "src/collections/string.rs", "src/boxed.rs", "src/collections/raw_vec.rs"):
        txt = files.get(path, "")
        heads = impl_headers(txt)
        for f in functions(txt):
            m = re.search(r"&\s*('(\w+)\s+)?(mut\s+)?Bump\b", f["params"])
            if not m or not (f["pub"] or path.endswith("raw_vec.rs")):
                continue
            if not f["ret"]:
                continue
            lt = m.group(2)
            carries = False
            if lt:
                if re.search(r"'%s\b" % lt, f["ret"]):
                    carries = True
                elif re.search(r"\bSelf\b", f["ret"]) and re.search(r"'%s\b" % lt, enclosing_impl(heads, f["pos"])):
                    carries = True
            # a function that returns nothing borrowing (e.g. usize) would be fine, but none exists: be strict
            if not carries:
                alloc_shared = False
                notes.append("alloc_shared: %s::%s takes %s but returns %s" % (path, f["name"], m.group(0), f["ret"]))
    # lifetime flow through conversions: whatever arena-backed type or reference comes out of a safe
    # function or a From/TryFrom impl carries a named lifetime that also goes in
    ARENA_TY = r"(?:Box|Vec|String|IntoIter|Drain|DrainFilter|Splice|ChunkIter|Bump)\s*<\s*'(\w+)"
    for path in ("src/collections/vec.rs", "src/collections/string.rs", "src/boxed.rs", "src/collections/collect_in.rs"):
        txt = files.get(path, "")
        heads = impl_headers(txt)
        for pos, h in heads:
            m = re.match(r"(?:unsafe\s+)?impl\s*(<.*?>)?\s*(?:core::convert::|std::convert::)?(From|TryFrom)\s*<(.*)>\s+for\s+(.*)$", h)
            if not m:
                continue
            src_t, dst_t = m.group(3), m.group(4)
            out_lts = re.findall(ARENA_TY, dst_t) + re.findall(r"&\s*'(\w+)", dst_t)
            in_lts = set(re.findall(r"'(\w+)", src_t))
            for lt in out_lts:
                if lt == "_" or lt == "static" or lt not in in_lts:
                    alloc_shared = False
                    notes.append("alloc_shared: %s: `%s` produces lifetime '%s that does not come from its source" % (path, h, lt))
            if re.search(r"(Box|Vec|String)\s*<\s*'_", dst_t) or (re.search(r"\b(Box|Vec|String)\b", dst_t) and "'" not in dst_t and "'" in src_t):
                alloc_shared = False
                notes.append("alloc_shared: %s: `%s` leaves the target's arena lifetime anonymous" % (path, h))
        for f in functions(txt):
            if not f["pub"] or f["unsafe"] or not f["ret"]:
                continue
            head = enclosing_impl(heads, f["pos"])
            self_t = re.sub(r"^.*\bfor\s+", "", head) if re.search(r"\bfor\b", head) else re.sub(r"^(?:unsafe\s+)?impl\s*(<.*?>)?\s*", "", head)
            avail = set(re.findall(r"'(\w+)", f["params"])) | set(re.findall(r"'(\w+)", self_t))
            out_lts = re.findall(ARENA_TY, f["ret"]) + re.findall(r"&\s*'(\w+)", f["ret"])
            for lt in out_lts:
                if lt == "_":
                    continue                    # elided: tied by the elision rules to an input
                if lt == "static" or lt not in avail:
                    alloc_shared = False
                    notes.append("alloc_shared: %s::%s returns lifetime '%s that no argument carries (%s)" % (path, f["name"], lt, f["ret"]))
    # ---- f_reset_excl / f_iter_excl
    f = names.get("reset")
    reset_excl = bool(f) and receiver(f["params"]) == "&mut self"
    if not reset_excl:
        notes.append("reset_excl: Bump::reset receiver is %r" % (f["params"] if f else None))
    f = names.get("iter_allocated_chunks")
    iter_excl = bool(f) and receiver(f["params"]) == "&mut self" and \
        (set(re.findall(r"'(\w+)", f["ret"])) <= {"_"}) and "ChunkIter" in f["ret"]
    if not iter_excl:
        notes.append("iter_excl: Bump::iter_allocated_chunks is %r -> %r" % ((f["params"], f["ret"]) if f else (None, None)))
    # the items the iterator yields keep the borrow: Item = &'a [..] with 'a the struct's lifetime
    m = re.search(r"impl\s*<\s*'(\w+)[^{]*>\s*Iterator\s+for\s+ChunkIter\s*<\s*'(\w+)[^{]*\{\s*type\s+Item\s*=\s*([^;]+);", lib)
    if not (m and m.group(1) == m.group(2) and re.search(r"&\s*'%s\s" % m.group(1), m.group(3))):
        iter_excl = False
        notes.append("iter_excl: ChunkIter::Item is not a slice borrowed for the iterator's lifetime")
    # ---- auto traits
    alltxt = "\n".join(files.values())
    # Send for every minimum alignment: the impl is generic over the const parameter and names it
    sm = re.search(r"unsafe\s+impl\s*<\s*const\s+(\w+)\s*:\s*usize\s*>\s*Send\s+for\s+Bump\s*<\s*(\w+)\s*>", alltxt)
    send = bool(sm) and sm.group(1) == sm.group(2)
    sync = bool(re.search(r"\bimpl\s*(<[^{]*?>)?\s*Sync\s+for\s+Bump\b", alltxt))
    coll_send = bool(re.search(r"\bimpl\s*(<[^{]*?>)?\s*Send\s+for\s+(Vec|RawVec|String)\b", alltxt))
    if not send:
        notes.append("send: no `unsafe impl<const M: usize> Send for Bump<M>` (Send for every minimum alignment)")
    if sync:
        notes.append("sync: an `impl Sync for Bump` exists")
    if coll_send:
        notes.append("coll_send: an `impl Send for Vec/RawVec/String` exists")
    return {"alloc_shared": alloc_shared, "reset_excl": reset_excl, "iter_excl": iter_excl,
            "send": send, "sync": sync, "coll_send": coll_send}, notes


if __name__ == "__main__":
    facts, notes = analyse(sys.argv[1] if len(sys.argv) > 1 else "/repo")
    print(facts)
    for n in notes:
        print("  note:", n)
