#!/bin/bash
# usage: try_seed.sh <patch.diff> <prop> [<prop> ...]
# applies a seeded change to /repo, runs the given checks, and always restores /repo
set -u
patch="$1"; shift
cd /repo || exit 2
if ! git diff --quiet; then echo "repo dirty, refusing"; exit 2; fi
git apply "$patch" || { echo "patch does not apply"; exit 2; }
trap 'git -C /repo checkout -- . ; (cd /verif && python3 tools/gen_actual.py >/dev/null 2>&1)' EXIT
cd /verif
for p in "$@"; do
  echo "=== $p"
  BV_NO_SEARCH= ./bin/check "$p" --tier quick
  echo "exit=$?"
done
