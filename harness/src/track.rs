//! Tracking global allocator: while a thread has recording switched on, every
//! request it makes is logged (size, align, address), fault plans are applied,
//! and the "address adversary" hands out blocks aligned to the requested
//! alignment *and no more*.  Nothing here allocates.
use std::alloc::{GlobalAlloc, Layout, System};
use std::cell::{Cell, UnsafeCell};

#[derive(Clone, Copy, Debug, PartialEq, Eq)]
pub enum Kind {
    Alloc,
    Dealloc,
    Realloc,
}

#[derive(Clone, Copy, Debug)]
pub struct Event {
    pub kind: Kind,
    pub size: usize,
    pub align: usize,
    /// address returned (0 = refused) or freed
    pub addr: usize,
}

pub const LOG_CAP: usize = 8192;
pub const MIN_TRACKED_ALIGN: usize = 16;
const SIDE_CAP: usize = 4096;
/// more requests than this inside one recorded region = the operation hangs
pub const HANG_LIMIT: usize = 20000;

#[derive(Clone, Copy)]
struct Side {
    user: usize,
    base: usize,
    total: usize,
    align: usize,
}

struct State {
    log: UnsafeCell<[Event; LOG_CAP]>,
    log_len: Cell<usize>,
    side: UnsafeCell<[Side; SIDE_CAP]>,
    side_len: Cell<usize>,
    active: Cell<bool>,
    adversary: Cell<bool>,
    /// fault plan: refuse the k-th request from now (1-based; 0 = off)
    fail_kth: Cell<usize>,
    /// refuse every request of at least this size (0 = off)
    fail_above: Cell<usize>,
    fail_all: Cell<bool>,
    seen: Cell<usize>,
    overflow: Cell<bool>,
    hang: Cell<bool>,
}

const EV0: Event = Event { kind: Kind::Alloc, size: 0, align: 0, addr: 0 };
const SIDE0: Side = Side { user: 0, base: 0, total: 0, align: 0 };

thread_local! {
    static ST: State = const { State {
        log: UnsafeCell::new([EV0; LOG_CAP]),
        log_len: Cell::new(0),
        side: UnsafeCell::new([SIDE0; SIDE_CAP]),
        side_len: Cell::new(0),
        active: Cell::new(false),
        adversary: Cell::new(false),
        fail_kth: Cell::new(0),
        fail_above: Cell::new(0),
        fail_all: Cell::new(false),
        seen: Cell::new(0),
        overflow: Cell::new(false),
        hang: Cell::new(false),
    } };
}

pub struct Tracker;

fn push(st: &State, e: Event) {
    let n = st.log_len.get();
    if n < LOG_CAP {
        unsafe { (*st.log.get())[n] = e };
        st.log_len.set(n + 1);
    } else {
        st.overflow.set(true);
    }
}

fn hang_exit() -> ! {
    // an arena operation made an absurd number of requests: report and stop
    let msg = b"\nX hang\n";
    unsafe {
        libc_write(1, msg.as_ptr(), msg.len());
    }
    std::process::exit(3)
}

extern "C" {
    #[link_name = "write"]
    fn libc_write(fd: i32, buf: *const u8, n: usize) -> isize;
}

unsafe fn adv_alloc(st: &State, layout: Layout) -> *mut u8 {
    let align = layout.align();
    let total = match layout.size().checked_add(2 * align) {
        Some(t) => t,
        None => return core::ptr::null_mut(),
    };
    let big = match Layout::from_size_align(total, align) {
        Ok(l) => l,
        Err(_) => return core::ptr::null_mut(),
    };
    let n = st.side_len.get();
    if n >= SIDE_CAP {
        st.overflow.set(true);
        return core::ptr::null_mut();
    }
    let base = System.alloc(big);
    if base.is_null() {
        return base;
    }
    let b = base as usize;
    // address = align (mod 2*align): aligned to `align` and to nothing larger
    let user = if b % (2 * align) == 0 { b + align } else { b };
    (*st.side.get())[n] = Side { user, base: b, total, align };
    st.side_len.set(n + 1);
    user as *mut u8
}

unsafe fn adv_dealloc(st: &State, ptr: *mut u8) -> bool {
    let n = st.side_len.get();
    let side = &mut *st.side.get();
    for i in 0..n {
        if side[i].user == ptr as usize {
            let s = side[i];
            side[i] = side[n - 1];
            st.side_len.set(n - 1);
            System.dealloc(s.base as *mut u8, Layout::from_size_align_unchecked(s.total, s.align));
            return true;
        }
    }
    false
}

unsafe impl GlobalAlloc for Tracker {
    unsafe fn alloc(&self, layout: Layout) -> *mut u8 {
        let r = ST.try_with(|st| {
            // the arena asks for chunks with CHUNK_ALIGN (16) or more; smaller
            // alignments are the panic machinery's and the harness's own
            if !st.active.get() || layout.align() < MIN_TRACKED_ALIGN {
                return None;
            }
            let seen = st.seen.get() + 1;
            st.seen.set(seen);
            if seen > HANG_LIMIT {
                st.hang.set(true);
                hang_exit();
            }
            let mut refuse = st.fail_all.get();
            if st.fail_above.get() != 0 && layout.size() >= st.fail_above.get() {
                refuse = true;
            }
            if st.fail_kth.get() != 0 {
                let k = st.fail_kth.get();
                if k == 1 {
                    refuse = true;
                    st.fail_kth.set(0);
                } else {
                    st.fail_kth.set(k - 1);
                }
            }
            let p = if refuse {
                core::ptr::null_mut()
            } else if st.adversary.get() {
                adv_alloc(st, layout)
            } else {
                System.alloc(layout)
            };
            push(st, Event { kind: Kind::Alloc, size: layout.size(), align: layout.align(), addr: p as usize });
            Some(p)
        });
        match r {
            Ok(Some(p)) => p,
            _ => System.alloc(layout),
        }
    }

    unsafe fn dealloc(&self, ptr: *mut u8, layout: Layout) {
        let handled = ST.try_with(|st| {
            if st.active.get() && layout.align() >= MIN_TRACKED_ALIGN {
                push(st, Event { kind: Kind::Dealloc, size: layout.size(), align: layout.align(), addr: ptr as usize });
            }
            // blocks handed out by the adversary are released through the side table,
            // whoever frees them
            if st.side_len.get() != 0 && adv_dealloc(st, ptr) {
                return true;
            }
            false
        });
        if let Ok(true) = handled {
            return;
        }
        System.dealloc(ptr, layout)
    }

    unsafe fn realloc(&self, ptr: *mut u8, layout: Layout, new_size: usize) -> *mut u8 {
        // bumpalo never calls realloc on the global allocator; record it if it ever does
        let _ = ST.try_with(|st| {
            if st.active.get() && layout.align() >= MIN_TRACKED_ALIGN {
                push(st, Event { kind: Kind::Realloc, size: new_size, align: layout.align(), addr: ptr as usize });
            }
        });
        let new_layout = Layout::from_size_align_unchecked(new_size, layout.align());
        let np = self.alloc(new_layout);
        if !np.is_null() {
            core::ptr::copy_nonoverlapping(ptr, np, layout.size().min(new_size));
            self.dealloc(ptr, layout);
        }
        np
    }
}

/// Switch recording on for the current thread; returns the previous state.
pub fn set_active(on: bool) -> bool {
    ST.with(|st| st.active.replace(on))
}
pub fn is_active() -> bool {
    ST.with(|st| st.active.get())
}
pub fn set_adversary(on: bool) {
    ST.with(|st| st.adversary.set(on))
}
pub fn set_fail_kth(k: usize) {
    ST.with(|st| st.fail_kth.set(k))
}
pub fn set_fail_above(n: usize) {
    ST.with(|st| st.fail_above.set(n))
}
pub fn set_fail_all(on: bool) {
    ST.with(|st| st.fail_all.set(on))
}
pub fn clear_faults() {
    ST.with(|st| {
        st.fail_kth.set(0);
        st.fail_above.set(0);
        st.fail_all.set(false);
    })
}
/// number of events logged so far on this thread
pub fn log_len() -> usize {
    ST.with(|st| st.log_len.get())
}
/// copy of the events in [from, to)
pub fn events(from: usize, to: usize) -> Vec<Event> {
    let was = set_active(false);
    let v = ST.with(|st| unsafe { (*st.log.get())[from..to].to_vec() });
    set_active(was);
    v
}
pub fn reset_log() {
    ST.with(|st| {
        st.log_len.set(0);
        st.seen.set(0);
    })
}
pub fn reset_seen() {
    ST.with(|st| st.seen.set(0))
}
pub fn overflowed() -> bool {
    ST.with(|st| st.overflow.get())
}

/// Run `f` with recording on; harness code that must not be recorded (or hit
/// by fault plans) inside `f` uses `paused`.
pub fn recorded<R>(f: impl FnOnce() -> R) -> R {
    let was = set_active(true);
    reset_seen();
    struct G(bool);
    impl Drop for G {
        fn drop(&mut self) {
            set_active(self.0);
        }
    }
    let _g = G(was);
    f()
}
pub fn paused<R>(f: impl FnOnce() -> R) -> R {
    let was = set_active(false);
    struct G(bool);
    impl Drop for G {
        fn drop(&mut self) {
            set_active(self.0);
        }
    }
    let _g = G(was);
    f()
}
