// string_driver: bumpalo::collections::String against std::string::String (the
// oracle of C14), operation by operation and at every byte index, plus the
// decoders (from_utf8, from_utf8_lossy_in, from_utf16_in) on exhaustive and
// structured inputs.  Traces are read by ocaml/string_check.ml.
//
//   string_driver gen <seed> <count> [maxops] [first]
//   string_driver widths            the UTF8_CHAR_WIDTH table of the crate (256 numbers)
use bumpalo::collections::String as BString;
use bumpalo::collections::Vec as BVec;
use bumpalo::Bump;
use bv_harness::rng::Rng;
use std::io::Write;
use std::ops::Bound;
use std::panic::{catch_unwind, AssertUnwindSafe};

const CHARS: &[char] = &[
    'a', 'Z', '0', ' ', '\u{7f}', '\u{80}', 'é', 'ß', 'Ω', '\u{7ff}', '\u{800}', '€', '한', '\u{d7ff}', '\u{e000}', '\u{ffff}',
    '\u{10000}', '𝄞', '😀', '\u{10ffff}',
];

fn hex(b: &[u8]) -> String {
    if b.is_empty() {
        return "-".into();
    }
    b.iter().map(|x| format!("{:02x}", x)).collect()
}

fn show_bound(b: &Bound<usize>) -> String {
    match b {
        Bound::Included(n) => format!("i{}", n),
        Bound::Excluded(n) => format!("e{}", n),
        Bound::Unbounded => "u".into(),
    }
}

#[derive(Clone, Debug)]
enum Op {
    Push(char),
    PushStr(String),
    Pop,
    Insert(usize, char),
    InsertStr(usize, String),
    Remove(usize),
    Truncate(usize),
    Clear,
    Retain(Vec<u8>), // per character: 0 drop, 1 keep, 2 panic
    Drain(Bound<usize>, Bound<usize>, usize),
    ReplaceRange(Bound<usize>, Bound<usize>, String),
    SplitOff(usize),
    Extend(String),
    CloneS,
    CloneFrom(String),
    Reserve(usize),
    ShrinkToFit,
    WriteFmt(u32),
    IntoBumpStr,
}

impl Op {
    fn show(&self) -> String {
        match self {
            Op::Push(c) => format!("push {}", *c as u32),
            Op::PushStr(s) => format!("push_str {}", hex(s.as_bytes())),
            Op::Pop => "pop".into(),
            Op::Insert(i, c) => format!("insert {} {}", i, *c as u32),
            Op::InsertStr(i, s) => format!("insert_str {} {}", i, hex(s.as_bytes())),
            Op::Remove(i) => format!("remove {}", i),
            Op::Truncate(n) => format!("truncate {}", n),
            Op::Clear => "clear".into(),
            Op::Retain(a) => format!("retain {}", a.iter().map(|x| (b'0' + x) as char).collect::<String>() + "."),
            Op::Drain(s, e, k) => format!("drain {} {} {}", show_bound(s), show_bound(e), k),
            Op::ReplaceRange(s, e, t) => format!("replace_range {} {} {}", show_bound(s), show_bound(e), hex(t.as_bytes())),
            Op::SplitOff(i) => format!("split_off {}", i),
            Op::Extend(s) => format!("extend {}", hex(s.as_bytes())),
            Op::CloneS => "clone".into(),
            Op::CloneFrom(t) => format!("clone_from {}", hex(t.as_bytes())),
            Op::Reserve(n) => format!("reserve {}", n),
            Op::ShrinkToFit => "shrink_to_fit".into(),
            Op::WriteFmt(n) => format!("write_fmt {}", n),
            Op::IntoBumpStr => "into_bump_str".into(),
        }
    }
}

struct Obs {
    res: String,
    bytes: Vec<u8>,
    valid: bool,
}

macro_rules! apply {
    ($s:ident, $op:expr, $mk:expr, $is_bump:expr) => {{
        let op: &Op = $op;
        match op {
            Op::Push(c) => { $s.push(*c); "unit".to_string() }
            Op::PushStr(t) => { $s.push_str(t); "unit".to_string() }
            Op::Pop => match $s.pop() { Some(c) => format!("some:{}", c as u32), None => "none".into() },
            Op::Insert(i, c) => { $s.insert(*i, *c); "unit".to_string() }
            Op::InsertStr(i, t) => { $s.insert_str(*i, t); "unit".to_string() }
            Op::Remove(i) => { let c = $s.remove(*i); format!("some:{}", c as u32) }
            Op::Truncate(n) => { $s.truncate(*n); "unit".to_string() }
            Op::Clear => { $s.clear(); "unit".to_string() }
            Op::Retain(a) => {
                let mut k = 0usize;
                $s.retain(|_| { let x = a.get(k).copied().unwrap_or(1); k += 1; if x == 2 { panic!("boom callback") } x == 1 });
                "unit".to_string()
            }
            Op::Drain(st, en, take) => {
                let mut d = $s.drain((st.clone(), en.clone()));
                let mut got = String::new();
                // take & 3 chars from the front, then take >> 2 from the back, then drop the rest
                for _ in 0..(*take & 3) { if let Some(c) = d.next() { got.push(c); } }
                let mut back = String::new();
                for _ in 0..(*take >> 2) { if let Some(c) = d.next_back() { back.push(c); } }
                let hint = d.size_hint();
                drop(d);
                format!("taken:{}:{}:{:?}", hex(got.as_bytes()), hex(back.as_bytes()), hint)
            }
            Op::ReplaceRange(st, en, t) => { $s.replace_range((st.clone(), en.clone()), t); "unit".to_string() }
            Op::SplitOff(i) => { let o = $s.split_off(*i); format!("tail:{}", hex(o.as_bytes())) }
            Op::Extend(t) => { $s.extend(t.chars()); "unit".to_string() }
            Op::CloneS => { let c = $s.clone(); format!("copy:{}", hex(c.as_bytes())) }
            Op::CloneFrom(t) => { let mut src = $mk; src.push_str(t); $s.clone_from(&src); "unit".to_string() }
            Op::Reserve(n) => { $s.reserve(*n); if $s.capacity() < $s.len() + *n { "short_capacity".to_string() } else { "unit".to_string() } }
            Op::ShrinkToFit => { $s.shrink_to_fit(); "unit".to_string() }
            Op::WriteFmt(n) => {
                use std::fmt::Write as W;
                // chars on both sides of every encoding-length boundary, as arguments and as fill characters
                let c = ['a', '\u{7f}', '\u{80}', 'é', 'ÿ', '\u{100}', '€', '𝄞'][(*n % 8) as usize];
                write!($s, "{}-{:?}-{:x}", n, "é", n).unwrap();
                write!($s, "|{}|{:é^7}|{:ÿ>4}|{:?}|{:\u{80}<3}", c, n % 100, c, c, n % 7).unwrap();
                W::write_char(&mut $s, c).unwrap();
                W::write_str(&mut $s, "ß").unwrap();
                "unit".to_string()
            }
            Op::IntoBumpStr => unreachable!(),
        }
    }};
}

fn pick_index(rng: &mut Rng, len: usize) -> usize {
    match rng.below(14) {
        0 => 0,
        1 => len,
        2 => len + 1,
        3 => usize::MAX,
        4 => len.saturating_sub(1),
        _ => rng.usize_below(len + 1),
    }
}
fn pick_bound(rng: &mut Rng, len: usize) -> Bound<usize> {
    let i = pick_index(rng, len);
    match rng.below(5) {
        0 | 1 => Bound::Included(i),
        2 | 3 => Bound::Excluded(i),
        _ => Bound::Unbounded,
    }
}
fn text(rng: &mut Rng, n: usize) -> String {
    (0..n).map(|_| *rng.pick(CHARS)).collect()
}

fn gen_op(rng: &mut Rng, len: usize, nchars: usize) -> Op {
    match rng.below(100) {
        0..=11 => Op::Push(*rng.pick(CHARS)),
        12..=19 => { let n = rng.usize_below(5); Op::PushStr(text(rng, n)) }
        20..=25 => Op::Pop,
        26..=35 => Op::Insert(pick_index(rng, len), *rng.pick(CHARS)),
        36..=42 => { let n = rng.usize_below(4); Op::InsertStr(pick_index(rng, len), text(rng, n)) }
        43..=51 => Op::Remove(pick_index(rng, len)),
        52..=59 => Op::Truncate(pick_index(rng, len)),
        60 => Op::Clear,
        61..=67 => {
            let boom = if rng.chance(1, 3) { rng.usize_below(nchars + 1) } else { usize::MAX };
            Op::Retain((0..nchars + 1).map(|i| if i == boom { 2 } else if rng.chance(1, 2) { 1 } else { 0 }).collect())
        }
        68..=76 => Op::Drain(pick_bound(rng, len), pick_bound(rng, len), rng.usize_below(12)),
        77..=84 => { let n = rng.usize_below(4); Op::ReplaceRange(pick_bound(rng, len), pick_bound(rng, len), text(rng, n)) }
        85..=90 => Op::SplitOff(pick_index(rng, len)),
        91..=92 => { let n = rng.usize_below(5); Op::Extend(text(rng, n)) }
        93 => Op::WriteFmt(rng.below(100000) as u32),
        94 => if rng.chance(1, 2) { Op::CloneS } else { let n = rng.usize_below(6); Op::CloneFrom(text(rng, n)) },
        95..=96 => Op::Reserve(if rng.chance(1, 6) { usize::MAX - rng.usize_below(3) } else { rng.usize_below(100) }),
        97 => Op::ShrinkToFit,
        98 => Op::WriteFmt(rng.below(100000) as u32),
        _ => Op::IntoBumpStr,
    }
}

fn run_program(seed: u64, hid: u64, maxops: usize) {
    let mut rng = Rng::new(seed ^ hid.wrapping_mul(0x9E3779B97F4A7C15) ^ 0x57F1);
    let bump = Bump::new();
    let mode = if cfg!(debug_assertions) { "debug" } else { "release" };
    let mut out = std::io::stdout().lock();
    macro_rules! line { ($($a:tt)*) => {{ writeln!(out, $($a)*).unwrap(); out.flush().unwrap(); }} }
    line!("H id={} seed={} mode={}", hid, seed, mode);
    let n0 = rng.usize_below(8);
    let init = text(&mut rng, n0);
    let mut b: BString = BString::from_str_in(&init, &bump);
    let mut s: String = init.clone();
    line!("T new {} | unit | {} | 1", hex(init.as_bytes()), hex(b.as_bytes()));
    // a neighbour in the same arena
    let mut nb: BVec<u64> = BVec::new_in(&bump);
    let mut nb_expected: Vec<u64> = Vec::new();
    let nops = 4 + rng.usize_below(maxops.max(5) - 4);
    for _ in 0..nops {
        let op = gen_op(&mut rng, s.len(), s.chars().count());
        if rng.chance(1, 5) {
            let x = rng.next();
            nb.push(x);
            nb_expected.push(x);
        }
        line!("B {}", op.show());
        if let Op::IntoBumpStr = op {
            let old = std::mem::replace(&mut b, BString::new_in(&bump));
            let r: &str = old.into_bump_str();
            let first = r.as_bytes().to_vec();
            // the str belongs to the arena from now on: whatever is allocated next must not land on it
            let churn: Vec<&mut [u8]> = (0..6).map(|i| bump.alloc_slice_fill_copy(1 + 24 * i, 0xC3u8)).collect();
            let t2 = BString::from_str_in("SECOND STRING", &bump);
            if r.as_bytes() != &first[..] || churn.iter().any(|b| b.iter().any(|x| *x != 0xC3)) || t2.as_str() != "SECOND STRING" {
                line!("X into_bump_str_changed_by_later_allocations");
            }
            line!("T {} | str:{} | - | 1", op.show(), hex(r.as_bytes()));
            line!("S {} | str:{} | - | 1", op.show(), hex(s.as_bytes()));
            s.clear();
            continue;
        }
        let rs = catch_unwind(AssertUnwindSafe(|| apply!(s, &op, String::new(), false)));
        let so = Obs { res: match rs { Ok(r) => r, Err(_) => "panic".into() }, bytes: s.as_bytes().to_vec(), valid: true };
        let rb = catch_unwind(AssertUnwindSafe(|| apply!(b, &op, BString::new_in(&bump), true)));
        let bo = Obs { res: match rb { Ok(r) => r, Err(_) => "panic".into() }, bytes: b.as_bytes().to_vec(), valid: std::str::from_utf8(b.as_bytes()).is_ok() };
        line!("T {} | {} | {} | {}", op.show(), bo.res, hex(&bo.bytes), bo.valid as u8);
        line!("S {} | {} | {} | {}", op.show(), so.res, hex(&so.bytes), so.valid as u8);
        if nb.as_slice() != nb_expected.as_slice() {
            line!("X neighbour_disturbed");
        }
        if let Op::WriteFmt(n) = &op {
            // the format! macro of the crate against std's
            let c = ['a', '\u{7f}', '\u{80}', 'é', 'ÿ', '\u{100}', '€', '𝄞'][(*n % 8) as usize];
            let bf = bumpalo::format!(in &bump, "{}{:é<5}|{:>3}|{:?}{}", c, n % 50, c, c, "ü");
            let sf = std::format!("{}{:é<5}|{:>3}|{:?}{}", c, n % 50, c, c, "ü");
            if bf.as_bytes() != sf.as_bytes() {
                line!("X format_macro_differs_from_std bump={} std={}", hex(bf.as_bytes()), hex(sf.as_bytes()));
            }
        }
        // trait forwarding: whenever both hold the same valid text they hash, compare and print alike,
        // also through Borrow<str> (a map keyed by the arena String is looked up with a &str)
        if bo.valid && bo.bytes == so.bytes {
            use std::hash::{Hash, Hasher};
            let hb = { let mut h = std::collections::hash_map::DefaultHasher::new(); b.hash(&mut h); h.finish() };
            let hs = { let mut h = std::collections::hash_map::DefaultHasher::new(); s.hash(&mut h); h.finish() };
            let hstr = { let mut h = std::collections::hash_map::DefaultHasher::new(); s.as_str().hash(&mut h); h.finish() };
            let other = "aé";
            let same = hb == hs && hb == hstr
                && (b == *s.as_str()) && (b.as_str() == s.as_str()) && (b == *other) == (s == other)
                && b.as_str().cmp(other) == s.as_str().cmp(other)
                && format!("{}", b) == format!("{}", s) && format!("{:?}", b) == format!("{:?}", s)
                && format!("{:>12}|{:*<9}|{:^7.2}|{:.3}|{:10?}|{:#?}", b, b, b, b, b, b) == format!("{:>12}|{:*<9}|{:^7.2}|{:.3}|{:10?}|{:#?}", s, s, s, s, s, s)
                && b.len() == s.len() && b.is_empty() == s.is_empty()
                && b.chars().rev().collect::<Vec<char>>() == s.chars().rev().collect::<Vec<char>>()
                && b.char_indices().collect::<Vec<_>>() == s.char_indices().collect::<Vec<_>>()
                && b.as_bytes() == s.as_bytes() && AsRef::<str>::as_ref(&b) == s.as_str() && std::borrow::Borrow::<str>::borrow(&b) == s.as_str();
            if !same {
                line!("X forwarding_differs_from_std hash={} {} {}", hb, hs, hstr);
            }
            // extend by iterators whose size hint is honest but loose (a huge or unknown upper bound, few
            // items): like std, nothing but the items decides the outcome
            {
                let (mut bc, mut sc) = (b.clone(), s.clone());
                let mut k = 0;
                bc.extend(std::iter::repeat('é').take(usize::MAX).take_while(|_| { k += 1; k <= 3 }));
                let mut k = 0;
                sc.extend(std::iter::repeat('é').take(usize::MAX).take_while(|_| { k += 1; k <= 3 }));
                bc.extend("a€b𝄞c".chars().filter(|c| !c.is_ascii()));
                sc.extend("a€b𝄞c".chars().filter(|c| !c.is_ascii()));
                bc.extend(['x', 'y'].iter());
                sc.extend(['x', 'y'].iter());
                bc.extend((0..usize::MAX).map(|_| 'z').skip_while(|_| false).take_while(|_| false));
                sc.extend((0..usize::MAX).map(|_| 'z').skip_while(|_| false).take_while(|_| false));
                if bc.as_bytes() != sc.as_bytes() { line!("X forwarding_extend_loose_hints bump={} std={}", hex(bc.as_bytes()), hex(sc.as_bytes())); }
            }
            // operators: + and += with a &str, indexing by every range form (also mutably), BorrowMut
            {
                let (mut bc, mut sc) = (b.clone(), s.clone());
                bc += "é+"; sc += "é+";
                let (bc, sc) = (bc + "€", sc + "€");
                let mut ok = bc.as_bytes() == sc.as_bytes();
                let n = sc.len();
                for a in 0..=n { for e in a..=n {
                    if sc.is_char_boundary(a) && sc.is_char_boundary(e) {
                        ok = ok && bc[a..e] == sc[a..e] && bc[a..] == sc[a..] && bc[..e] == sc[..e] && bc[..] == sc[..];
                        if e > 0 && sc.is_char_boundary(e - 1) { ok = ok && bc[a.min(e - 1)..=e - 1] == sc[a.min(e - 1)..=e - 1] && bc[..=e - 1] == sc[..=e - 1]; }
                    }
                } }
                let (mut bc, mut sc) = (bc, sc);
                (&mut bc[..]).make_ascii_uppercase(); (&mut sc[..]).make_ascii_uppercase();
                { let m: &mut str = std::borrow::BorrowMut::borrow_mut(&mut bc); m.make_ascii_lowercase(); }
                sc.make_ascii_lowercase();
                ok = ok && bc.as_bytes() == sc.as_bytes();
                if !ok { line!("X operators_differ_from_std {}", hex(bc.as_bytes())); }
            }
            // the mutable views and the raw round trip: as_mut_str, as_mut_vec, from_raw_parts_in,
            // from_utf8_unchecked
            {
                let (mut bc, mut sc) = (b.clone(), s.clone());
                bc.as_mut_str().make_ascii_uppercase();
                sc.as_mut_str().make_ascii_uppercase();
                unsafe { bc.as_mut_vec().push(b'!'); sc.as_mut_vec().push(b'!'); }
                let ok1 = bc.as_bytes() == sc.as_bytes() && bc.len() == sc.len();
                bc.reserve(5);
                let (p, l, c) = (bc.as_ptr() as *mut u8, bc.len(), bc.capacity());
                std::mem::forget(bc);
                let mut back = unsafe { BString::from_raw_parts_in(p, l, c, &bump) };
                let ok2 = back.as_bytes() == sc.as_bytes() && back.capacity() == c && back.as_ptr() == p as *const u8;
                back.push_str("zz"); sc.push_str("zz");
                let ok3 = back.as_bytes() == sc.as_bytes() && back.as_ptr() == p as *const u8;
                let un = unsafe { BString::from_utf8_unchecked(BVec::from_iter_in(sc.bytes(), &bump)) };
                let ok4 = un.as_str() == sc.as_str();
                if !(ok1 && ok2 && ok3 && ok4) {
                    line!("X raw_views_differ_from_std {} {} {} {}", ok1, ok2, ok3, ok4);
                }
            }
        }
        if bo.res == "panic" || so.res == "panic" {
            if !bo.valid {
                // reported by the checker from the T line
            }
            // after a panic both sides may differ in what they kept (only validity is required): stop
            if bo.bytes != so.bytes {
                break;
            }
        }
    }
    line!("E");
}

fn decoders(seed: u64) {
    let bump = Bump::new();
    let mut out = std::io::stdout().lock();
    let mut rng = Rng::new(seed ^ 0xDEC0DE);
    let mut one = |v: &[u8]| {
        let bl = BString::from_utf8_lossy_in(v, &bump);
        let sl = String::from_utf8_lossy(v);
        let bv = BString::from_utf8(BVec::from_iter_in(v.iter().copied(), &bump));
        let sv = String::from_utf8(v.to_vec());
        let bok = match &bv { Ok(s) => (1, s.as_bytes() == v), Err(e) => (0, e.as_bytes() == v) };
        writeln!(out, "D lossy {} | {} | {}", hex(v), hex(bl.as_bytes()), hex(sl.as_bytes())).unwrap();
        writeln!(out, "D utf8 {} | {} {} | {}", hex(v), bok.0, bok.1 as u8, sv.is_ok() as u8).unwrap();
        // the error value describes the failure as std's does, and gives the bytes back
        if let (Err(be), Err(se)) = (&bv, &sv) {
            let (bu, su) = (be.utf8_error(), se.utf8_error());
            if bu.valid_up_to() != su.valid_up_to() || bu.error_len() != su.error_len() || format!("{}", be) != format!("{}", se) {
                writeln!(out, "X from_utf8_error_differs input={} bump={}:{:?} std={}:{:?}", hex(v), bu.valid_up_to(), bu.error_len(), su.valid_up_to(), su.error_len()).unwrap();
            }
        }
        if let Err(be) = bv {
            if be.into_bytes().as_slice() != v { writeln!(out, "X from_utf8_error_into_bytes_differs input={}", hex(v)).unwrap(); }
        }
    };
    // long ASCII (and valid multi-byte) prefixes of every length 0..40 before an ill-formed or truncated tail
    for pre in 0..40usize {
        for tail in [&[0xFFu8][..], &[0xC3], &[0xE2, 0x82], &[0xF0, 0x9F, 0x98], &[0xED, 0xA0, 0x80], &[0x80], &[0xC3, 0xA9, 0xFF], &[]] {
            let mut v: Vec<u8> = (0..pre).map(|i| b'a' + (i % 26) as u8).collect();
            v.extend_from_slice(tail);
            one(&v);
            let mut w: Vec<u8> = "é€".as_bytes().to_vec();
            w.extend_from_slice(&v);
            w.push(b'z');
            one(&w);
        }
    }
    // exhaustive: every byte string of length <= 2
    one(&[]);
    for a in 0..=255u8 {
        one(&[a]);
    }
    for a in 0..=255u8 {
        for b in 0..=255u8 {
            one(&[a, b]);
        }
    }
    // structured: lead bytes with every interesting second/third/fourth byte, truncations, overlongs,
    // surrogates, beyond U+10FFFF, runs of continuation bytes, embedded in valid text
    let leads = [0xC0u8, 0xC1, 0xC2, 0xDF, 0xE0, 0xE1, 0xEC, 0xED, 0xEE, 0xEF, 0xF0, 0xF1, 0xF3, 0xF4, 0xF5, 0xF8, 0xFF, 0x80, 0xBF];
    let seconds = [0x00u8, 0x7F, 0x80, 0x8F, 0x90, 0x9F, 0xA0, 0xBF, 0xC0, 0xFF];
    for &l in &leads {
        for &s2 in &seconds {
            for &s3 in &seconds {
                one(&[l, s2, s3]);
                one(&[b'a', l, s2, s3, b'z']);
                for &s4 in &[0x7Fu8, 0x80, 0xBF, 0xC0] {
                    one(&[l, s2, s3, s4]);
                    one(&[0xE2, 0x82, 0xAC, l, s2, s3, s4, 0xF0, 0x9F, 0x98, 0x80]);
                }
            }
        }
    }
    for _ in 0..3000 {
        let n = rng.usize_below(12);
        let v: Vec<u8> = (0..n).map(|_| if rng.chance(1, 2) { *rng.pick(&[0x61u8, 0xC3, 0xA9, 0xE2, 0x82, 0xAC, 0xF0, 0x9F, 0x98, 0x80, 0xED, 0xA0, 0x80, 0xF4, 0x90]) } else { rng.next() as u8 }).collect();
        one(&v);
    }
    // release builds: every byte string of length 3 against std (not written to the trace unless it differs)
    if !cfg!(debug_assertions) {
        let step = if std::env::var("VERIF_TIER").map(|t| t == "thorough").unwrap_or(false) { 1 } else { 7 };
        let mut n = 0u64;
        let mut bad = 0u64;
        let mut x = 0u32;
        while x < (1 << 24) {
            let v = [(x >> 16) as u8, (x >> 8) as u8, x as u8];
            let bl = BString::from_utf8_lossy_in(&v, &bump);
            let sl = String::from_utf8_lossy(&v);
            let bv = BString::from_utf8(BVec::from_iter_in(v.iter().copied(), &bump)).is_ok();
            let sv = std::str::from_utf8(&v).is_ok();
            n += 1;
            if bl.as_bytes() != sl.as_bytes() || bv != sv {
                bad += 1;
                if bad < 5 {
                    writeln!(out, "D lossy {} | {} | {}", hex(&v), hex(bl.as_bytes()), hex(sl.as_bytes())).unwrap();
                    writeln!(out, "D utf8 {} | {} 1 | {}", hex(&v), bv as u8, sv as u8).unwrap();
                }
            }
            x += step;
        }
        writeln!(out, "N len3_cases {} differing {}", n, bad).unwrap();
    }
    // String::drain under the iterator methods that skip or fold (nth, rev, last, count, fold, size
    // hints before and after partial consumption), on every boundary range of a text with 1-4 byte
    // characters, against std
    {
        let text = "aé€𝄞z";
        let cuts: Vec<usize> = (0..=text.len()).filter(|i| text.is_char_boundary(*i)).collect();
        let mut bad = 0usize;
        let mut cases = 0usize;
        macro_rules! run {
            ($st:expr, $a:expr, $b:expr, $k:expr, $how:expr) => {{
                let mut st = $st;
                let got: String = match $how {
                    0 => st.drain($a..$b).nth($k).into_iter().collect(),
                    1 => st.drain($a..$b).rev().nth($k).into_iter().collect(),
                    2 => st.drain($a..$b).last().into_iter().collect(),
                    3 => format!("{}", st.drain($a..$b).count()),
                    4 => st.drain($a..$b).fold(String::new(), |mut acc, c| { acc.push(c); acc.push('|'); acc }),
                    5 => { let mut d = st.drain($a..$b); let h0 = d.size_hint(); let x = d.next(); let y = d.next_back(); let h1 = d.size_hint(); format!("{:?}{:?}{:?}{:?}", h0, x, y, h1) }
                    6 => st.drain($a..$b).skip($k).step_by(2).collect(),
                    _ => st.drain($a..$b).rev().collect(),
                };
                (got, st.as_str().to_string())
            }};
        }
        for (i, a) in cuts.iter().enumerate() {
            for b in &cuts[i..] {
                for k in 0..4usize {
                    for how in 0..8 {
                        let rb = run!(BString::from_str_in(text, &bump), *a, *b, k, how);
                        let rs = run!(String::from(text), *a, *b, k, how);
                        cases += 1;
                        if rb != rs {
                            bad += 1;
                            if bad <= 2 { writeln!(out, "X forwarding_drain_adaptors range={}..{} k={} how={} bump={:?} std={:?}", a, b, k, how, rb, rs).unwrap(); }
                        }
                    }
                }
            }
        }
        writeln!(out, "N drain_adaptor_cases {} differing {}", cases, bad).unwrap();
    }
    // from_utf16_in: every single unit, structured pairs
    let mut u16case = |v: &[u16]| {
        let b = BString::from_utf16_in(v, &bump);
        let s = String::from_utf16(v);
        let bs = match &b { Ok(x) => hex(x.as_bytes()), Err(_) => "err".into() };
        let ss = match &s { Ok(x) => hex(x.as_bytes()), Err(_) => "err".into() };
        if bs != ss {
            writeln!(out, "X utf16_differs {:?} bump={} std={}", v, bs, ss).unwrap();
        }
    };
    for u in 0..=0xFFFFu32 {
        u16case(&[u as u16]);
    }
    for &a in &[0xD7FFu16, 0xD800, 0xDBFF, 0xDC00, 0xDFFF, 0xE000, 0x0041] {
        for &b in &[0xD7FFu16, 0xD800, 0xDBFF, 0xDC00, 0xDFFF, 0xE000, 0x0041] {
            u16case(&[a, b]);
            u16case(&[0x61, a, b, 0x62]);
            u16case(&[a, b, a]);
        }
    }
    // the same question put to the model (D utf16 lines): boundary units, pairs, random surrogate-heavy texts
    let mut modelcase = |v: &[u16], out: &mut std::io::StdoutLock, bump: &Bump| {
        let b = BString::from_utf16_in(v, bump);
        let s = String::from_utf16(v);
        let bs = match &b { Ok(x) => hex(x.as_bytes()), Err(_) => "err".into() };
        let ss = match &s { Ok(x) => hex(x.as_bytes()), Err(_) => "err".into() };
        let units: String = v.iter().map(|u| format!("{:04x}", u)).collect();
        writeln!(out, "D utf16 {} | {} | {}", if units.is_empty() { "-".to_string() } else { units }, if bs.is_empty() { "-".to_string() } else { bs }, if ss.is_empty() { "-".to_string() } else { ss }).unwrap();
    };
    let edge = [0x0000u16, 0x0041, 0x007F, 0x0080, 0x07FF, 0x0800, 0xD7FF, 0xD800, 0xD801, 0xDBFF, 0xDC00, 0xDC01, 0xDFFF, 0xE000, 0xFFFD, 0xFFFF];
    modelcase(&[], &mut out, &bump);
    for &a in &edge {
        modelcase(&[a], &mut out, &bump);
        for &b in &edge {
            modelcase(&[a, b], &mut out, &bump);
            modelcase(&[b, a, b], &mut out, &bump);
        }
    }
    for _ in 0..1500 {
        let n = rng.usize_below(9);
        let v: Vec<u16> = (0..n).map(|_| match rng.usize_below(5) { 0 => 0xD800 + (rng.next() % 0x400) as u16, 1 => 0xDC00 + (rng.next() % 0x400) as u16, 2 => *rng.pick(&edge), 3 => (rng.next() % 0x80) as u16, _ => rng.next() as u16 }).collect();
        modelcase(&v, &mut out, &bump);
    }
    writeln!(out, "N utf16_cases {}", 65536 + 49 * 3).unwrap();
    out.flush().unwrap();
}

/// C14 (always UTF-8): every growing String operation when the arena refuses the memory it needs (the
/// chunk is full and an allocation limit forbids another one). bumpalo reports that by an unwinding
/// panic, so the String is observable afterwards: it must still be valid UTF-8 — no part of a
/// multi-byte character may have been written and counted before the refusal.
fn refused_growth(seed: u64) {
    use std::fmt::Write as _;
    let mode = if cfg!(debug_assertions) { "debug" } else { "release" };
    println!("H id=900100 seed={} mode={}", seed, mode);
    let mut cases = 0usize;
    for slack in 0..5usize {
        for how in 0..14usize {
            let bump = Bump::new();
            let mut s = BString::with_capacity_in(6 + slack, &bump);
            s.push_str("ab\u{e9}de");          // 6 bytes
            let room = bump.chunk_capacity();
            let _fill = bump.alloc_slice_fill_copy(room, 0u8);
            bump.set_allocation_limit(Some(bump.allocated_bytes()));
            let before = s.as_bytes().to_vec();
            let r = catch_unwind(AssertUnwindSafe(|| match how {
                0 => s.push('\u{e9}'),
                1 => s.push('\u{20ac}'),
                2 => s.push('\u{1d11e}'),
                3 => s.push_str("\u{20ac}\u{20ac}\u{20ac}"),
                4 => s.insert(0, '\u{20ac}'),
                5 => s.insert(2, '\u{1d11e}'),
                6 => s.insert_str(2, "\u{20ac}\u{e9}\u{20ac}"),
                7 => s.replace_range(0..1, "\u{20ac}\u{20ac}\u{20ac}"),
                8 => s.replace_range(.., "\u{65e5}\u{672c}\u{8a9e}\u{65e5}\u{672c}\u{8a9e}"),
                9 => s.replace_range(4..4, "\u{1d11e}\u{1d11e}\u{1d11e}"),
                10 => s.extend(['\u{20ac}', '\u{e9}', '\u{1d11e}', '\u{20ac}']),
                11 => s.extend(["\u{20ac}\u{e9}", "\u{1d11e}\u{1d11e}"]),
                12 => { let _ = write!(s, "{}|{:>4}", "\u{20ac}\u{20ac}", '\u{e9}'); }
                _ => { let _ = s.write_char('\u{1d11e}'); let _ = s.write_char('\u{1d11e}'); }
            }));
            bump.set_allocation_limit(None);
            cases += 1;
            let valid = std::str::from_utf8(s.as_bytes()).is_ok();
            if !valid {
                println!("X refused_growth_leaves_invalid_utf8 how={} slack={} panicked={} before={} after={}", how, slack, r.is_err() as u8, hex(&before), hex(s.as_bytes()));
            }
            // the string stays usable: a later operation on it gives valid text as well
            if valid { s.push('z'); if std::str::from_utf8(s.as_bytes()).is_err() { println!("X refused_growth_then_push_invalid how={} slack={}", how, slack); } }
        }
    }
    println!("N refused_growth_cases_{}", cases);
    println!("E");
}

fn main() {
    std::panic::set_hook(Box::new(|_| {}));
    let args: Vec<String> = std::env::args().collect();
    match args.get(1).map(|s| s.as_str()) {
        Some("widths") => {
            let v: Vec<String> = (0..=255u8).map(|b| bumpalo::collections::verif_utf8_char_width(b).to_string()).collect();
            println!("{}", v.join(" "));
        }
        Some("gen") => {
            let seed: u64 = args[2].parse().unwrap();
            let count: u64 = args[3].parse().unwrap();
            let maxops: usize = args.get(4).map(|s| s.parse().unwrap()).unwrap_or(40);
            let first: u64 = args.get(5).map(|s| s.parse().unwrap()).unwrap_or(0);
            if first == 0 {
                decoders(seed);
                refused_growth(seed);
            }
            for hid in first..first + count {
                run_program(seed, hid, maxops);
            }
        }
        _ => {
            eprintln!("usage: string_driver gen <seed> <count> [maxops] [first] | widths");
            std::process::exit(2);
        }
    }
}
