// vec_driver: runs generated programs against bumpalo::collections::Vec and
// against std::vec::Vec (the oracle property C13 names), with elements that
// log their drops, scripted callbacks that may panic, several collections and
// canary blocks in one arena.  One trace per program; see ocaml/vec_check.ml.
//
//   vec_driver gen <seed> <count> [maxops] [first]
use bumpalo::collections::Vec as BVec;
use bumpalo::Bump;
use bv_harness::rng::Rng;
use std::cell::{Cell, RefCell};
use std::io::Write;
use std::ops::Bound;
use std::panic::{catch_unwind, AssertUnwindSafe};

thread_local! {
    static DROPS: RefCell<Vec<u64>> = RefCell::new(Vec::new());
    static NEXT_ID: Cell<u64> = Cell::new(0);
    static CLONES: Cell<u64> = Cell::new(0);
    // identities whose Drop panics / the clone call (1-based, counted per op) that panics
    static BOOM_DROP: RefCell<Vec<u64>> = RefCell::new(Vec::new());
    static BOOM_CLONE: Cell<u64> = Cell::new(0);
    static DOUBLE_DROP: Cell<bool> = Cell::new(false);
    static DEAD: RefCell<std::collections::HashSet<u64>> = RefCell::new(std::collections::HashSet::new());
    // the bumpalo side of a history: every identity it ever dropped (never cleared within a history)
    static BUMP_SIDE: Cell<bool> = Cell::new(false);
    // identities a user callback was invoked with during the current operation (C13: like std, in std's order)
    static CALLS: RefCell<Vec<u64>> = RefCell::new(Vec::new());
    static BDEAD: RefCell<std::collections::HashSet<u64>> = RefCell::new(std::collections::HashSet::new());
}

fn fresh_id() -> u64 {
    NEXT_ID.with(|n| {
        let v = n.get();
        n.set(v + 1);
        v
    })
}

#[derive(Debug)]
struct Tok {
    id: u64,
    _pad: [u64; 2],
}
impl Tok {
    fn new(id: u64) -> Tok {
        Tok { id, _pad: [id ^ 0x5555, !id] }
    }
}
impl Drop for Tok {
    fn drop(&mut self) {
        let id = self.id;
        let fresh = DEAD.with(|d| d.borrow_mut().insert(id));
        if !fresh {
            DOUBLE_DROP.with(|d| d.set(true));
        }
        if BUMP_SIDE.with(|b| b.get()) {
            let first = BDEAD.with(|d| d.borrow_mut().insert(id));
            if !first {
                DOUBLE_DROP.with(|d| d.set(true));
            }
        }
        DROPS.with(|d| d.borrow_mut().push(id));
        if self._pad[0] != id ^ 0x5555 || self._pad[1] != !id {
            // the value was corrupted
            DOUBLE_DROP.with(|d| d.set(true));
        }
        let boom = BOOM_DROP.with(|b| b.borrow().contains(&id));
        if boom {
            BOOM_DROP.with(|b| b.borrow_mut().retain(|x| *x != id));
            panic!("boom drop");
        }
    }
}
impl Clone for Tok {
    fn clone(&self) -> Tok {
        let k = CLONES.with(|c| {
            c.set(c.get() + 1);
            c.get()
        });
        if BOOM_CLONE.with(|b| b.get()) == k {
            panic!("boom clone");
        }
        Tok::new(fresh_id())
    }
}
impl PartialEq for Tok {
    fn eq(&self, o: &Tok) -> bool {
        self.id % 3 == o.id % 3
    }
}

#[derive(Clone, Debug, PartialEq)]
enum Ans {
    Yes,
    No,
    Boom,
}

#[derive(Clone, Debug)]
enum Op {
    Push(u64),
    Pop,
    Insert(usize, u64),
    Remove(usize),
    SwapRemove(usize),
    Truncate(usize, Vec<u64>),
    Clear,
    Reserve(usize, bool),
    TryReserve(usize, bool),
    ShrinkToFit,
    Drain(Bound<usize>, Bound<usize>, usize, usize),
    Retain(Vec<Ans>),
    DrainFilter(Vec<Ans>, usize),
    DedupBy(Vec<Ans>),
    Dedup,
    Resize(usize, u64, u64), // new_len, id of the value, clone number that panics (0 = none)
    ExtendFromSlice(Vec<u64>, u64),
    ExtendIter(Vec<u64>, usize, usize), // items, size hint lower bound, item index at which next() panics (usize::MAX none)
    Append(Vec<u64>),
    SplitOff(usize),
    CloneVec(u64),
    IntoIter(usize, usize),
    IntoSlice(u8), // 0 into_bump_slice, 1 into_bump_slice_mut, 2 into_boxed_slice
    Splice(Bound<usize>, Bound<usize>, Vec<u64>, usize),
    Armed(Box<Op>, u64),  // the inner operation, run while the destructor of one element is set to panic
    Neighbour(usize), // grow a neighbouring collection in the same arena by n elements
}

fn show_bound(b: &Bound<usize>) -> String {
    match b {
        Bound::Included(n) => format!("i{}", n),
        Bound::Excluded(n) => format!("e{}", n),
        Bound::Unbounded => "u".into(),
    }
}
fn show_ans(a: &[Ans]) -> String {
    if a.is_empty() {
        return "-".into();
    }
    a.iter().map(|x| match x { Ans::Yes => 'y', Ans::No => 'n', Ans::Boom => 'b' }).collect()
}
fn show_ids(v: &[u64]) -> String {
    if v.is_empty() {
        return "-".into();
    }
    v.iter().map(|x| x.to_string()).collect::<Vec<_>>().join(",")
}

impl Op {
    fn show(&self) -> String {
        match self {
            Op::Push(x) => format!("push {}", x),
            Op::Pop => "pop".into(),
            Op::Insert(i, x) => format!("insert {} {}", i, x),
            Op::Remove(i) => format!("remove {}", i),
            Op::SwapRemove(i) => format!("swap_remove {}", i),
            Op::Truncate(n, b) => format!("truncate {} {}", n, show_ids(b)),
            Op::Clear => "clear".into(),
            Op::Reserve(n, e) => format!("reserve {} {}", n, *e as u8),
            Op::TryReserve(n, e) => format!("try_reserve {} {}", n, *e as u8),
            Op::ShrinkToFit => "shrink_to_fit".into(),
            Op::Drain(s, e, f, b) => format!("drain {} {} {} {}", show_bound(s), show_bound(e), f, b),
            Op::Retain(a) => format!("retain {}", show_ans(a)),
            Op::DrainFilter(a, t) => format!("drain_filter {} {}", show_ans(a), t),
            Op::DedupBy(a) => format!("dedup_by {}", show_ans(a)),
            Op::Dedup => "dedup".into(),
            Op::Resize(n, x, k) => format!("resize {} {} {}", n, x, k),
            Op::ExtendFromSlice(xs, k) => format!("extend_from_slice {} {}", show_ids(xs), k),
            Op::ExtendIter(xs, h, p) => format!("extend {} {} {}", show_ids(xs), h, if *p == usize::MAX { "-".to_string() } else { p.to_string() }),
            Op::Append(xs) => format!("append {}", show_ids(xs)),
            Op::SplitOff(a) => format!("split_off {}", a),
            Op::CloneVec(k) => format!("clone {}", k),
            Op::IntoIter(f, b) => format!("into_iter {} {}", f, b),
            Op::IntoSlice(k) => format!("into_slice {}", k),
            Op::Splice(s, e, xs, t) => format!("splice {} {} {} {}", show_bound(s), show_bound(e), show_ids(xs), t),
            Op::Armed(inner, id) => format!("armed {} {}", id, inner.show()),
            Op::Neighbour(n) => format!("neighbour {}", n),
        }
    }
}

/// what one operation let us observe
#[derive(Debug, Default, Clone, PartialEq)]
struct Obs {
    res: String,        // returned identities / "none" / "unit" / "panic:<kind>" / "err:<kind>"
    contents: Vec<u64>, // identities in the vector afterwards (empty when the vector was consumed)
    len: usize,
    cap: usize,
    drops: Vec<u64>,
    consumed: bool,     // the operation consumed the vector; a fresh one replaces it
}

fn panic_kind(e: Box<dyn std::any::Any + Send>) -> String {
    let msg = if let Some(s) = e.downcast_ref::<&str>() { s.to_string() } else if let Some(s) = e.downcast_ref::<String>() { s.clone() } else { "?".into() };
    if msg.contains("boom") {
        "callback".into()
    } else if msg.contains("capacity overflow") || msg.contains("LayoutErr") || msg.contains("LayoutError") {
        "capacity".into()
    } else if msg.contains("allocation error") || msg.contains("out of memory") {
        "oom".into()
    } else if msg.contains("overflow") {
        "arith".into()
    } else {
        "index".into()
    }
}

struct Script {
    ans: Vec<Ans>,
    pos: usize,
}
impl Script {
    fn next(&mut self) -> bool {
        let a = self.ans.get(self.pos).cloned().unwrap_or(Ans::No);
        self.pos += 1;
        match a {
            Ans::Yes => true,
            Ans::No => false,
            Ans::Boom => panic!("boom callback"),
        }
    }
}

struct PanicIter {
    items: std::vec::IntoIter<Tok>,
    i: usize,
    boom_at: usize,
    hint: usize,
}
impl Iterator for PanicIter {
    type Item = Tok;
    fn next(&mut self) -> Option<Tok> {
        if self.i == self.boom_at {
            self.i += 1;
            panic!("boom iterator");
        }
        self.i += 1;
        self.items.next()
    }
    fn size_hint(&self) -> (usize, Option<usize>) {
        // an odd hint is reported as exact, (n, Some(n)), whatever the iterator really yields:
        // size_hint is advisory and may lie, a collection must stay memory safe regardless
        (self.hint, if self.hint % 2 == 1 { Some(self.hint) } else { None })
    }
}

macro_rules! ids {
    ($v:expr) => {
        $v.iter().map(|t| t.id).collect::<Vec<u64>>()
    };
}

// The body of one operation, written once and instantiated for both vector
// types.  $bump: Option<&Bump> distinguishes them where the APIs differ.
macro_rules! apply_op {
    ($v:ident, $op:expr, $is_bump:expr, $mk_new:expr, $from_ids:expr) => {{
        let op: &Op = $op;
        let mut consumed = false;
        let res: String = match op {
            Op::Push(x) => { $v.push(Tok::new(*x)); "unit".into() }
            Op::Pop => match $v.pop() { Some(t) => { let s = format!("some:{}", t.id); std::mem::forget(t); s } None => "none".into() },
            Op::Insert(i, x) => { let t = Tok::new(*x); $v.insert(*i, t); "unit".into() }
            Op::Remove(i) => { let t = $v.remove(*i); let s = format!("some:{}", t.id); std::mem::forget(t); s }
            Op::SwapRemove(i) => { let t = $v.swap_remove(*i); let s = format!("some:{}", t.id); std::mem::forget(t); s }
            Op::Truncate(n, boom) => { BOOM_DROP.with(|b| *b.borrow_mut() = boom.clone()); $v.truncate(*n); "unit".into() }
            Op::Clear => { $v.clear(); "unit".into() }
            Op::Reserve(n, exact) => { if *exact { $v.reserve_exact(*n) } else { $v.reserve(*n) }; "unit".into() }
            Op::TryReserve(n, exact) => {
                let r = if *exact { $v.try_reserve_exact(*n).map_err(|e| format!("{:?}", e)) } else { $v.try_reserve(*n).map_err(|e| format!("{:?}", e)) };
                match r { Ok(()) => "unit".into(), Err(e) => if e.contains("CapacityOverflow") { "err:capacity".into() } else { "err:alloc".into() } }
            }
            Op::ShrinkToFit => { $v.shrink_to_fit(); "unit".into() }
            Op::Drain(s, e, front, back) => {
                let mut d = $v.drain((s.clone(), e.clone()));
                let mut got = Vec::new();
                for _ in 0..*front { if let Some(t) = d.next() { got.push(t.id); std::mem::forget(t); } }
                let mut gb = Vec::new();
                for _ in 0..*back { if let Some(t) = d.next_back() { gb.push(t.id); std::mem::forget(t); } }
                drop(d);
                format!("front:{};back:{}", show_ids(&got), show_ids(&gb))
            }
            Op::Retain(a) => { let mut sc = Script { ans: a.clone(), pos: 0 }; $v.retain(|x| { CALLS.with(|c| c.borrow_mut().push(x.id)); !sc.next() }); "unit".into() }
            Op::DedupBy(a) => { let mut sc = Script { ans: a.clone(), pos: 0 }; $v.dedup_by(|x, y| { CALLS.with(|c| { let mut c = c.borrow_mut(); c.push(x.id); c.push(y.id); }); sc.next() }); "unit".into() }
            Op::Dedup => { $v.dedup(); "unit".into() }
            Op::Resize(n, x, k) => { BOOM_CLONE.with(|b| b.set(*k)); CLONES.with(|c| c.set(0)); $v.resize(*n, Tok::new(*x)); "unit".into() }
            Op::ExtendFromSlice(xs, k) => {
                let src: Vec<Tok> = xs.iter().map(|x| Tok::new(*x)).collect();
                BOOM_CLONE.with(|b| b.set(*k)); CLONES.with(|c| c.set(0));
                let r = catch_unwind(AssertUnwindSafe(|| $v.extend_from_slice(&src)));
                // the source slice belongs to the caller: forget it silently
                for t in src { std::mem::forget(t); }
                match r { Ok(()) => "unit".into(), Err(e) => std::panic::resume_unwind(e) }
            }
            Op::ExtendIter(xs, hint, boom_at) => {
                let src: Vec<Tok> = xs.iter().map(|x| Tok::new(*x)).collect();
                let it = PanicIter { items: src.into_iter(), i: 0, boom_at: *boom_at, hint: *hint };
                $v.extend(it);
                "unit".into()
            }
            Op::CloneVec(k) => {
                BOOM_CLONE.with(|b| b.set(*k)); CLONES.with(|c| c.set(0));
                let c = $v.clone();
                let s = format!("ids:{}", show_ids(&ids!(c)));
                drop(c);
                s
            }
            Op::SplitOff(at) => {
                let o = $v.split_off(*at);
                let s = format!("ids:{}", show_ids(&ids!(o)));
                for t in o { std::mem::forget(t); }
                s
            }
            Op::Append(xs) => {
                let mut o = $from_ids(xs);
                $v.append(&mut o);
                format!("other_len:{}", o.len())
            }
            Op::IntoIter(front, back) => {
                consumed = true;
                let old = std::mem::replace(&mut $v, $mk_new);
                let mut it = old.into_iter();
                let mut got = Vec::new();
                for _ in 0..*front { if let Some(t) = it.next() { got.push(t.id); std::mem::forget(t); } }
                let mut gb = Vec::new();
                for _ in 0..*back { if let Some(t) = it.next_back() { gb.push(t.id); std::mem::forget(t); } }
                let remaining = it.len();
                drop(it);
                format!("front:{};back:{};left:{}", show_ids(&got), show_ids(&gb), remaining)
            }
            _ => unreachable!(),
        };
        (res, consumed)
    }};
}

struct World<'b> {
    bump: Option<&'b Bump>,
    bv: Option<BVec<'b, Tok>>,
    sv: Option<Vec<Tok>>,
    // neighbours in the same arena (C13: none of them is ever disturbed)
    nb_vec: Option<BVec<'b, u64>>,
    nb_str: Option<bumpalo::collections::String<'b>>,
    canary: Vec<(usize, Vec<u8>)>,
}

fn reset_world_state(next_id: u64) {
    DROPS.with(|d| d.borrow_mut().clear());
    NEXT_ID.with(|n| n.set(next_id));
    BOOM_DROP.with(|b| b.borrow_mut().clear());
    BOOM_CLONE.with(|b| b.set(0));
    CLONES.with(|c| c.set(0));
}

fn take_drops() -> Vec<u64> {
    DROPS.with(|d| std::mem::take(&mut *d.borrow_mut()))
}

/// run one op on the bumpalo vector
fn run_bump<'b>(w: &mut World<'b>, op: &Op) -> Obs {
    if let Op::Armed(inner, id) = op {
        BOOM_DROP.with(|b| *b.borrow_mut() = vec![*id]);
        return run_bump(w, inner);
    }
    let bump = w.bump.unwrap();
    let mut v = w.bv.take().unwrap();
    take_drops();
    let r = catch_unwind(AssertUnwindSafe(|| -> (String, bool) {
        match op {
            Op::DrainFilter(a, take) => {
                let mut sc = Script { ans: a.clone(), pos: 0 };
                let mut d = v.drain_filter(|_| sc.next());
                let mut got = Vec::new();
                for _ in 0..*take { if let Some(t) = d.next() { got.push(t.id); std::mem::forget(t); } else { break; } }
                drop(d);
                (format!("taken:{}", show_ids(&got)), false)
            }
            Op::IntoSlice(k) => {
                let old = std::mem::replace(&mut v, BVec::new_in(bump));
                // the slice must stay what it was while the arena keeps allocating: fill the arena with
                // other blocks after the conversion and read the slice again; writes through the
                // mutable slice must not land in those blocks either
                fn churn<'x>(b: &'x Bump) -> Vec<&'x mut [u8]> { (0..6).map(|i| b.alloc_slice_fill_copy(24 + 40 * i, 0xC3u8)).collect() }
                let idsv = match k {
                    0 => { let sl = old.into_bump_slice(); let first = ids!(sl); let blocks = churn(bump); let again = ids!(sl);
                           if first != again || blocks.iter().any(|b| b.iter().any(|x| *x != 0xC3)) { println!("X into_bump_slice changed by later allocations {:?} -> {:?}", first, again); }
                           first }
                    1 => { let sl = old.into_bump_slice_mut(); let first = ids!(sl); let blocks = churn(bump);
                           for t in sl.iter_mut() { let id = t.id; t.id = id; }
                           let again = ids!(sl);
                           if first != again || blocks.iter().any(|b| b.iter().any(|x| *x != 0xC3)) { println!("X into_bump_slice_mut changed by later allocations {:?} -> {:?}", first, again); }
                           first }
                    _ => { let b = old.into_boxed_slice(); let first = ids!(b); let blocks = churn(bump); let again = ids!(b);
                           if first != again || blocks.iter().any(|b| b.iter().any(|x| *x != 0xC3)) { println!("X into_boxed_slice changed by later allocations {:?} -> {:?}", first, again); }
                           std::mem::forget(b); first }
                };
                (format!("ids:{}", show_ids(&idsv)), true)
            }
            Op::Splice(s, e, xs, take) => {
                let src: Vec<Tok> = xs.iter().map(|x| Tok::new(*x)).collect();
                let hint = src.len() / 2 + (src.len() % 2);
                let mut sp = v.splice((s.clone(), e.clone()), PanicIter { items: src.into_iter(), i: 0, boom_at: usize::MAX, hint });
                let mut got = Vec::new();
                for _ in 0..*take { if let Some(t) = sp.next() { got.push(t.id); std::mem::forget(t); } }
                drop(sp);
                (format!("taken:{}", show_ids(&got)), false)
            }
            _ => apply_op!(v, op, true, BVec::new_in(bump), |xs: &Vec<u64>| { let mut o = BVec::new_in(bump); for x in xs { o.push(Tok::new(*x)); } o }),
        }
    }));
    let drops = take_drops();
    BOOM_DROP.with(|b| b.borrow_mut().clear());
    BOOM_CLONE.with(|b| b.set(0));
    let (res, consumed) = match r { Ok((s, c)) => (s, c), Err(e) => (format!("panic:{}", panic_kind(e)), false) };
    let obs = Obs { res, contents: ids!(v), len: v.len(), cap: v.capacity(), drops, consumed };
    w.bv = Some(v);
    obs
}

fn run_std(w: &mut World, op: &Op) -> Obs {
    if let Op::Armed(inner, id) = op {
        BOOM_DROP.with(|b| *b.borrow_mut() = vec![*id]);
        return run_std(w, inner);
    }
    let mut v = w.sv.take().unwrap();
    take_drops();
    let r = catch_unwind(AssertUnwindSafe(|| -> (String, bool) {
        match op {
            Op::DrainFilter(a, take) => {
                // reference semantics: the first `take` removed items go to the caller, the rest are dropped
                let mut sc = Script { ans: a.clone(), pos: 0 };
                let mut got = Vec::new();
                let mut kept = Vec::new();
                let mut dropped = Vec::new();
                let old = std::mem::take(&mut v);
                let mut it = old.into_iter();
                let mut taken = 0usize;
                let mut boom = false;
                while let Some(t) = it.next() {
                    let r = catch_unwind(AssertUnwindSafe(|| sc.next()));
                    match r {
                        Ok(true) => { if taken < *take { taken += 1; got.push(t.id); std::mem::forget(t); } else { dropped.push(t); } }
                        Ok(false) => kept.push(t),
                        Err(_) => { std::mem::forget(t); boom = true; break; }
                    }
                }
                for t in it { kept.push(t); }
                v = kept;
                drop(dropped);
                if boom { panic!("boom callback"); }
                (format!("taken:{}", show_ids(&got)), false)
            }
            Op::IntoSlice(_) => {
                let old = std::mem::take(&mut v);
                let idsv = ids!(old);
                for t in old { std::mem::forget(t); }
                (format!("ids:{}", show_ids(&idsv)), true)
            }
            Op::Splice(s, e, xs, take) => {
                let src: Vec<Tok> = xs.iter().map(|x| Tok::new(*x)).collect();
                let hint = src.len() / 2 + (src.len() % 2);
                let mut sp = v.splice((s.clone(), e.clone()), PanicIter { items: src.into_iter(), i: 0, boom_at: usize::MAX, hint });
                let mut got = Vec::new();
                for _ in 0..*take { if let Some(t) = sp.next() { got.push(t.id); std::mem::forget(t); } }
                drop(sp);
                (format!("taken:{}", show_ids(&got)), false)
            }
            _ => apply_op!(v, op, false, Vec::new(), |xs: &Vec<u64>| { let mut o = Vec::new(); for x in xs { o.push(Tok::new(*x)); } o }),
        }
    }));
    let drops = take_drops();
    BOOM_DROP.with(|b| b.borrow_mut().clear());
    BOOM_CLONE.with(|b| b.set(0));
    let (res, consumed) = match r { Ok((s, c)) => (s, c), Err(e) => (format!("panic:{}", panic_kind(e)), false) };
    let obs = Obs { res, contents: ids!(v), len: v.len(), cap: v.capacity(), drops, consumed };
    w.sv = Some(v);
    obs
}

fn pick_index(rng: &mut Rng, len: usize) -> usize {
    match rng.below(12) {
        0 => 0,
        1 => len.saturating_sub(1),
        2 => len,
        3 => len + 1,
        4 => usize::MAX,
        5 => usize::MAX - 1,
        _ => if len == 0 { 0 } else { rng.usize_below(len) },
    }
}

fn pick_bound(rng: &mut Rng, len: usize) -> Bound<usize> {
    let i = pick_index(rng, len);
    match rng.below(5) {
        0 | 1 => Bound::Included(i),
        2 | 3 => Bound::Excluded(i),
        _ => Bound::Unbounded,
    }
}

fn script(rng: &mut Rng, n: usize, allow_boom: bool) -> Vec<Ans> {
    let boom_at = if allow_boom && rng.chance(1, 4) { rng.usize_below(n + 1) } else { usize::MAX };
    (0..n + 1).map(|i| if i == boom_at { Ans::Boom } else if rng.chance(2, 5) { Ans::Yes } else { Ans::No }).collect()
}

fn gen_op(rng: &mut Rng, len: usize) -> Op {
    let fresh = |n: usize| -> Vec<u64> { (0..n).map(|_| fresh_id()).collect() };
    match rng.below(100) {
        0..=17 => Op::Push(fresh_id()),
        18..=22 => Op::Pop,
        23..=29 => Op::Insert(pick_index(rng, len), fresh_id()),
        30..=34 => Op::Remove(pick_index(rng, len)),
        35..=38 => Op::SwapRemove(pick_index(rng, len)),
        39..=42 => Op::Truncate(pick_index(rng, len), Vec::new()),
        43 => Op::Clear,
        44..=46 => Op::Reserve(if rng.chance(1, 10) { usize::MAX - rng.usize_below(3) } else if rng.chance(1, 10) { (isize::MAX as usize) / 24 + 1 + rng.usize_below(3) } else { rng.usize_below(70) }, rng.chance(1, 2)),
        47..=49 => Op::TryReserve(if rng.chance(1, 5) { usize::MAX - rng.usize_below(3) } else if rng.chance(1, 5) { (isize::MAX as usize) / 24 + rng.usize_below(3) - 1 } else if rng.chance(1, 8) { 1usize << 44 } else { rng.usize_below(70) }, rng.chance(1, 2)),
        50..=51 => Op::ShrinkToFit,
        52..=59 => Op::Drain(pick_bound(rng, len), pick_bound(rng, len), rng.usize_below(4), rng.usize_below(3)),
        60..=64 => Op::Retain(script(rng, len, true)),
        65..=69 => Op::DrainFilter(script(rng, len, true), rng.usize_below(len + 2)),
        70..=73 => Op::DedupBy(script(rng, len, true)),
        74 => Op::Dedup,
        75..=78 => { let n = if rng.chance(1, 2) { len + rng.usize_below(6) } else { rng.usize_below(len + 1) }; Op::Resize(n, fresh_id(), if rng.chance(1, 4) { 1 + rng.below(4) } else { 0 }) }
        79..=81 => { let n = rng.usize_below(6); Op::ExtendFromSlice(fresh(n), if rng.chance(1, 4) { 1 + rng.below(4) } else { 0 }) }
        82..=84 => { let n = rng.usize_below(6); Op::ExtendIter(fresh(n), rng.usize_below(n + 3), if rng.chance(1, 4) { rng.usize_below(n + 1) } else { usize::MAX }) }
        85..=86 => { let n = rng.usize_below(5); Op::Append(fresh(n)) }
        87..=89 => Op::SplitOff(pick_index(rng, len)),
        90..=91 => Op::CloneVec(if rng.chance(1, 3) { 1 + rng.below(4) } else { 0 }),
        92..=93 => Op::IntoIter(rng.usize_below(4), rng.usize_below(3)),
        94 => Op::IntoSlice(rng.below(3) as u8),
        95..=97 => { let n = rng.usize_below(5); Op::Splice(pick_bound(rng, len), pick_bound(rng, len), fresh(n), rng.usize_below(3)) }
        _ => Op::Neighbour(1 + rng.usize_below(40)),
    }
}

fn check_neighbours(w: &mut World, n_expected: &mut Vec<u64>, s_expected: &mut String) -> bool {
    let mut ok = true;
    if let Some(nb) = &w.nb_vec {
        ok &= nb.as_slice() == n_expected.as_slice();
    }
    if let Some(ns) = &w.nb_str {
        ok &= ns.as_str() == s_expected.as_str();
    }
    for (addr, exp) in &w.canary {
        let got = unsafe { std::slice::from_raw_parts(*addr as *const u8, exp.len()) };
        ok &= got == exp.as_slice();
    }
    ok
}

fn run_program(seed: u64, hid: u64, maxops: usize) {
    let mut rng = Rng::new(seed ^ hid.wrapping_mul(0x9E3779B97F4A7C15) ^ 0x7EC7);
    let bump = Bump::new();
    let mode = if cfg!(debug_assertions) { "debug" } else { "release" };
    let mut out = std::io::stdout().lock();
    macro_rules! line { ($($a:tt)*) => {{ writeln!(out, $($a)*).unwrap(); out.flush().unwrap(); }} }
    line!("H id={} seed={} mode={} esize=24 ealign=8", hid, seed, mode);
    DEAD.with(|d| d.borrow_mut().clear());
    BDEAD.with(|d| d.borrow_mut().clear());
    BUMP_SIDE.with(|b| b.set(false));
    DOUBLE_DROP.with(|d| d.set(false));
    let mut w = World { bump: Some(&bump), bv: None, sv: None, nb_vec: Some(BVec::new_in(&bump)), nb_str: Some(bumpalo::collections::String::new_in(&bump)), canary: Vec::new() };
    let mut nb_expected: Vec<u64> = Vec::new();
    let mut s_expected = String::new();
    // constructor
    let cap0 = if rng.chance(1, 2) { 0 } else { rng.usize_below(20) };
    w.bv = Some(if cap0 == 0 { BVec::new_in(&bump) } else { BVec::with_capacity_in(cap0, &bump) });
    w.sv = Some(if cap0 == 0 { Vec::new() } else { Vec::with_capacity(cap0) });
    line!("V new {} | unit | - | 0 {} | -", cap0, w.bv.as_ref().unwrap().capacity());
    let nops = 4 + rng.usize_below(maxops.max(5) - 4);
    let mut ended_by_panic = false;
    for _ in 0..nops {
        let len = w.sv.as_ref().unwrap().len();
        // both worlds must see the same identities: ids for this op are drawn once
        let id0 = NEXT_ID.with(|n| n.get());
        let op = gen_op(&mut rng, len);
        // destructors that panic: one element of the tail that truncate/clear is about to drop
        let op = match op {
            Op::Truncate(n, _) if n < len && rng.chance(1, 3) => {
                let j = n + rng.usize_below(len - n);
                Op::Truncate(n, vec![w.sv.as_ref().unwrap()[j].id])
            }
            Op::Clear if len > 0 && rng.chance(1, 3) => {
                let j = rng.usize_below(len);
                Op::Truncate(0, vec![w.sv.as_ref().unwrap()[j].id])
            }
            // the iterator-like operations, with the destructor of one current element set to panic:
            // whichever of them drops that element (the Drain, the Splice, the IntoIter, retain, dedup)
            // unwinds, and afterwards nothing may have been dropped twice
            o @ (Op::Drain(..) | Op::Splice(..) | Op::IntoIter(..) | Op::DrainFilter(..) | Op::Retain(..) | Op::DedupBy(..))
                if len > 0 && rng.chance(1, 5)
                    // never together with a panicking callback: a second panic while unwinding aborts
                    && !matches!(&o, Op::DrainFilter(a, _) | Op::Retain(a) | Op::DedupBy(a) if a.iter().any(|x| matches!(x, Ans::Boom))) => {
                let j = rng.usize_below(len);
                Op::Armed(Box::new(o), w.sv.as_ref().unwrap()[j].id)
            }
            o => o,
        };
        let id1 = NEXT_ID.with(|n| n.get());
        if let Op::Neighbour(n) = &op {
            for _ in 0..*n {
                let x = rng.next();
                w.nb_vec.as_mut().unwrap().push(x);
                nb_expected.push(x);
                let c = *rng.pick(&['a', 'é', '€', '𝄞']);
                w.nb_str.as_mut().unwrap().push(c);
                s_expected.push(c);
            }
            let sz = 1 + rng.usize_below(64);
            let bytes: Vec<u8> = (0..sz).map(|_| rng.next() as u8).collect();
            let p = bump.alloc_slice_copy(&bytes).as_ptr() as usize;
            w.canary.push((p, bytes));
            continue;
        }
        line!("B {}", op.show());
        // std first (the oracle), then bumpalo with the same identity counter
        NEXT_ID.with(|n| n.set(id1));
        DEAD.with(|d| d.borrow_mut().clear());
        let dd_before = DOUBLE_DROP.with(|d| d.replace(false));
        CALLS.with(|c| c.borrow_mut().clear());
        let so = run_std(&mut w, &op);
        let std_calls: Vec<u64> = CALLS.with(|c| std::mem::take(&mut *c.borrow_mut()));
        let std_dead: Vec<u64> = DEAD.with(|d| d.borrow().iter().copied().collect());
        let next_after_std = NEXT_ID.with(|n| n.get());
        DOUBLE_DROP.with(|d| d.set(false));
        NEXT_ID.with(|n| n.set(id1));
        DEAD.with(|d| d.borrow_mut().clear());
        BUMP_SIDE.with(|b| b.set(true));
        let bo = run_bump(&mut w, &op);
        BUMP_SIDE.with(|b| b.set(false));
        let bump_calls: Vec<u64> = CALLS.with(|c| std::mem::take(&mut *c.borrow_mut()));
        let double = DOUBLE_DROP.with(|d| d.replace(dd_before));
        // nothing the bumpalo vector still holds may have been dropped already
        let reachable_dead: Vec<u64> = BDEAD.with(|d| bo.contents.iter().copied().filter(|i| d.borrow().contains(i)).collect());
        let next_after_bump = NEXT_ID.with(|n| n.get());
        NEXT_ID.with(|n| n.set(next_after_std.max(next_after_bump)));
        let _ = (id0, std_dead);
        line!("V {} | {} | {} | {} {} | {} | {}", op.show(), bo.res, show_ids(&bo.contents), bo.len, bo.cap, show_ids(&bo.drops), id1);
        line!("S {} | {} | {} | {} {} | {}", op.show(), so.res, show_ids(&so.contents), so.len, so.cap, show_ids(&so.drops));
        if double {
            line!("X double_drop_or_corrupt_value");
        }
        if !reachable_dead.is_empty() {
            line!("X dropped_value_reachable ids={}", show_ids(&reachable_dead));
        }
        // (with a destructor armed to panic the two implementations may stop calling back at different
        // points: std drops rejected elements as it goes, bumpalo after the partition)
        if bump_calls != std_calls && !matches!(op, Op::Armed(..)) {
            line!("X callback_arguments_differ bump={} std={}", show_ids(&bump_calls), show_ids(&std_calls));
        }
        if !check_neighbours(&mut w, &mut nb_expected, &mut s_expected) {
            line!("X neighbour_disturbed");
        }
        let b_panic = bo.res.starts_with("panic:");
        let s_panic = so.res.starts_with("panic:");
        if b_panic || s_panic {
            // after a panic the two may legitimately hold different (leaked) contents: stop here
            ended_by_panic = true;
            break;
        }
    }
    // drop both vectors: every element must be dropped exactly once overall
    take_drops();
    DEAD.with(|d| d.borrow_mut().clear());
    DOUBLE_DROP.with(|d| d.set(false));
    let bv = w.bv.take().unwrap();
    let before = ids!(bv);
    if !before.is_empty() && !ended_by_panic && rng.chance(1, 4) {
        let j = rng.usize_below(before.len());
        BOOM_DROP.with(|b| *b.borrow_mut() = vec![before[j]]);
    }
    BUMP_SIDE.with(|b| b.set(true));
    let r = catch_unwind(AssertUnwindSafe(move || drop(bv)));
    BUMP_SIDE.with(|b| b.set(false));
    let drops = take_drops();
    line!("V drop | {} | - | 0 0 | {}", if r.is_ok() { "unit" } else { "panic:callback" }, show_ids(&drops));
    if DOUBLE_DROP.with(|d| d.get()) {
        line!("X double_drop_or_corrupt_value_at_final_drop");
    }
    let mut a = before.clone();
    a.sort();
    let mut b = drops.clone();
    b.sort();
    if a != b {
        line!("X final_drop_mismatch have={} dropped={}", show_ids(&before), show_ids(&drops));
    }
    BOOM_DROP.with(|b| b.borrow_mut().clear());
    let sv = w.sv.take().unwrap();
    drop(sv);
    take_drops();
    let _ = ended_by_panic;
    if !check_neighbours(&mut w, &mut nb_expected, &mut s_expected) {
        line!("X neighbour_disturbed_at_end");
    }
    drop(w);
    // the zero-sized section (its own arena: the main one is still borrowed by nothing, but keep it apart)
    let zb = Bump::new();
    let nz = 3 + rng.usize_below(12);
    for l in run_zst(&mut rng, &zb, nz) {
        line!("{}", l);
    }
    line!("E");
}


// ---------------------------------------------------------------- zero-sized elements
// A second, smaller differential inside every history: the same operations on
// Vec<Zt> where Zt is zero-sized and counts its drops.  No model here (the
// Coq model assumes a positive element size): bumpalo against std only.
thread_local! {
    static ZDROPS: Cell<u64> = Cell::new(0);
}
// (over-aligned on purpose: a zero-sized type may demand an alignment, and pointers that merely count
// zero-sized elements are not aligned for it)
#[derive(PartialEq, Debug)]
#[repr(align(16))]
struct Zt;
impl Drop for Zt {
    fn drop(&mut self) {
        ZDROPS.with(|d| d.set(d.get() + 1));
    }
}
impl Clone for Zt {
    fn clone(&self) -> Zt {
        Zt
    }
}
struct HintIter {
    left: usize,
    hint: usize,
}
impl Iterator for HintIter {
    type Item = Zt;
    fn next(&mut self) -> Option<Zt> {
        if self.left == 0 {
            None
        } else {
            self.left -= 1;
            Some(Zt)
        }
    }
    fn size_hint(&self) -> (usize, Option<usize>) {
        if self.hint % 2 == 1 { (self.hint, Some(self.hint)) } else { (self.hint.min(self.left), None) }
    }
}

#[derive(Clone, Debug)]
enum ZOp {
    Push,
    Pop,
    Insert(usize),
    Remove(usize),
    SwapRemove(usize),
    Truncate(usize),
    Clear,
    Reserve(usize),
    Drain(Bound<usize>, Bound<usize>, usize, usize),
    Retain(Vec<Ans>),
    Dedup,
    Resize(usize),
    Extend(usize, usize),
    ExtendFromSlice(usize),
    Append(usize),
    SplitOff(usize),
    IntoIter(usize, usize),
    Splice(Bound<usize>, Bound<usize>, usize, usize),
    CloneVec,
    ShrinkToFit,
    ReserveExact(usize),
    TryReserve(usize, bool),
}

macro_rules! zapply {
    ($v:ident, $op:expr, $mk_new:expr, $mk_n:expr) => {{
        match $op {
            ZOp::Push => { $v.push(Zt); "unit".to_string() }
            ZOp::Pop => match $v.pop() { Some(z) => { std::mem::forget(z); "some".to_string() } None => "none".to_string() },
            ZOp::Insert(i) => { $v.insert(*i, Zt); "unit".to_string() }
            ZOp::Remove(i) => { std::mem::forget($v.remove(*i)); "some".to_string() }
            ZOp::SwapRemove(i) => { std::mem::forget($v.swap_remove(*i)); "some".to_string() }
            ZOp::Truncate(n) => { $v.truncate(*n); "unit".to_string() }
            ZOp::Clear => { $v.clear(); "unit".to_string() }
            ZOp::Reserve(n) => { $v.reserve(*n); format!("cap_ok:{}", $v.len().checked_add(*n).map_or(false, |t| $v.capacity() >= t)) }
            ZOp::Drain(s, e, front, back) => {
                let mut d = $v.drain((s.clone(), e.clone()));
                let (mut f, mut b) = (0, 0);
                for _ in 0..*front { if let Some(z) = d.next() { std::mem::forget(z); f += 1; } }
                for _ in 0..*back { if let Some(z) = d.next_back() { std::mem::forget(z); b += 1; } }
                let left = d.len();
                drop(d);
                format!("front:{};back:{};left:{}", f, b, left)
            }
            ZOp::Retain(a) => { let mut sc = Script { ans: a.clone(), pos: 0 }; $v.retain(|_| !sc.next()); "unit".to_string() }
            ZOp::Dedup => { $v.dedup(); "unit".to_string() }
            ZOp::Resize(n) => { $v.resize(*n, Zt); "unit".to_string() }
            ZOp::Extend(n, hint) => { $v.extend(HintIter { left: *n, hint: *hint }); "unit".to_string() }
            ZOp::ExtendFromSlice(n) => { let src: Vec<Zt> = (0..*n).map(|_| Zt).collect(); $v.extend_from_slice(&src); std::mem::forget(src); "unit".to_string() }
            ZOp::Append(n) => { let mut o = $mk_n(*n); $v.append(&mut o); format!("other_len:{}", o.len()) }
            ZOp::SplitOff(at) => { let o = $v.split_off(*at); let n = o.len(); for z in o { std::mem::forget(z); } format!("off:{}", n) }
            ZOp::IntoIter(front, back) => {
                let old = std::mem::replace(&mut $v, $mk_new);
                let mut it = old.into_iter();
                let hint0 = it.size_hint().0;
                let (mut f, mut b) = (0, 0);
                for _ in 0..*front { if let Some(z) = it.next() { std::mem::forget(z); f += 1; } }
                for _ in 0..*back { if let Some(z) = it.next_back() { std::mem::forget(z); b += 1; } }
                let left = it.len();
                drop(it);
                format!("hint:{};front:{};back:{};left:{}", hint0, f, b, left)
            }
            ZOp::Splice(s, e, n, hint) => {
                let removed: Vec<Zt> = $v.splice((s.clone(), e.clone()), HintIter { left: *n, hint: *hint }).collect();
                let k = removed.len();
                std::mem::forget(removed);
                format!("removed:{}", k)
            }
            ZOp::CloneVec => { let c = $v.clone(); let n = c.len(); std::mem::forget(c); format!("len:{}", n) }
            ZOp::ShrinkToFit => { $v.shrink_to_fit(); format!("cap_ok:{}", $v.capacity() >= $v.len()) }
            ZOp::ReserveExact(n) => { $v.reserve_exact(*n); format!("cap_ok:{}", $v.len().checked_add(*n).map_or(false, |t| $v.capacity() >= t)) }
            ZOp::TryReserve(n, exact) => { let r = if *exact { $v.try_reserve_exact(*n).is_ok() } else { $v.try_reserve(*n).is_ok() }; format!("ok:{}", r) }
        }
    }};
}

/// a count next to the largest one a zero-sized vector of this length can still take
fn zst_boundary(rng: &mut Rng, len: usize) -> usize {
    let fits = usize::MAX - len;                       // len + fits == usize::MAX
    match rng.below(4) {
        0 => fits,
        1 => fits.saturating_add(1),                   // the first count that cannot fit (if representable)
        2 => fits.saturating_sub(1),
        _ => usize::MAX - rng.usize_below(4),
    }
}

fn gen_zop(rng: &mut Rng, len: usize) -> ZOp {
    match rng.below(26) {
        22 | 23 => ZOp::ShrinkToFit,
        // around the exact boundary len + n == usize::MAX (the last count that fits) as well as far from it
        24 => ZOp::ReserveExact(if rng.chance(1, 4) { zst_boundary(rng, len) } else { rng.usize_below(40) }),
        25 => ZOp::TryReserve(if rng.chance(1, 2) { zst_boundary(rng, len) } else { rng.usize_below(40) }, rng.chance(1, 2)),
        0 | 1 | 2 => ZOp::Push,
        3 => ZOp::Pop,
        4 => ZOp::Insert(pick_index(rng, len)),
        5 => ZOp::Remove(pick_index(rng, len)),
        6 => ZOp::SwapRemove(pick_index(rng, len)),
        7 => ZOp::Truncate(pick_index(rng, len)),
        8 => if rng.chance(1, 4) { ZOp::Clear } else { ZOp::Dedup },
        9 => ZOp::Reserve(if rng.chance(1, 6) { zst_boundary(rng, len) } else { rng.usize_below(40) }),
        10 => ZOp::Drain(pick_bound(rng, len), pick_bound(rng, len), rng.usize_below(3), rng.usize_below(3)),
        11 => ZOp::Retain(script(rng, len, true)),
        12 => ZOp::Resize(rng.usize_below(2 * len + 4)),
        13 | 14 => ZOp::Extend(rng.usize_below(9), rng.usize_below(4)),
        15 => ZOp::ExtendFromSlice(rng.usize_below(9)),
        16 => ZOp::Append(rng.usize_below(6)),
        17 => ZOp::SplitOff(pick_index(rng, len)),
        18 | 19 => ZOp::IntoIter(rng.usize_below(3), rng.usize_below(3)),
        20 => ZOp::Splice(pick_bound(rng, len), pick_bound(rng, len), rng.usize_below(8), rng.usize_below(3)),
        _ => ZOp::CloneVec,
    }
}

/// returns the lines of the zero-sized section of a history
fn run_zst(rng: &mut Rng, bump: &Bump, nops: usize) -> Vec<String> {
    let mut lines = Vec::new();
    let mut bv: BVec<Zt> = BVec::new_in(bump);
    let mut sv: Vec<Zt> = Vec::new();
    for k in 0..nops {
        let op = gen_zop(rng, sv.len());
        ZDROPS.with(|d| d.set(0));
        let rs = catch_unwind(AssertUnwindSafe(|| zapply!(sv, &op, Vec::new(), |n: usize| (0..n).map(|_| Zt).collect::<Vec<Zt>>())));
        let ds = ZDROPS.with(|d| d.replace(0));
        let rb = catch_unwind(AssertUnwindSafe(|| zapply!(bv, &op, BVec::new_in(bump), |n: usize| { let mut o = BVec::new_in(bump); for _ in 0..n { o.push(Zt); } o })));
        let db = ZDROPS.with(|d| d.replace(0));
        let so = match &rs { Ok(r) => r.clone(), Err(_) => "panic".to_string() };
        let bo = match &rb { Ok(r) => r.clone(), Err(_) => "panic".to_string() };
        lines.push(format!("Y {} {:?} | {} {} {} | {} {} {}", k, op, bo, bv.len(), db, so, sv.len(), ds).replace('\n', " "));
        if (rs.is_err() || rb.is_err()) && !(rs.is_err() && rb.is_err() && bv.len() == sv.len()) {
            break;
        }
    }
    ZDROPS.with(|d| d.set(0));
    let n = bv.len();
    drop(bv);
    let db = ZDROPS.with(|d| d.replace(0));
    lines.push(format!("Y end drop | unit 0 {} | unit 0 {}", db, n));
    std::mem::forget(sv);
    lines
}

#[derive(Clone)]
struct Big([u64; 512]);
impl Default for Big {
    fn default() -> Self {
        Big([0; 512])
    }
}

/// C19: size-taking entry points on both sides of every overflow boundary, for several
/// element sizes; compared with std where std does not abort, and with the model
fn grid() {
    fn class<R>(r: Result<R, Box<dyn std::any::Any + Send>>) -> String {
        match r { Ok(_) => "ok".into(), Err(e) => format!("panic:{}", panic_kind(e)) }
    }
    fn one<T: Default + Clone + 'static>() {
        let es = std::mem::size_of::<T>();
        let ea = std::mem::align_of::<T>();
        let m = usize::MAX;
        let im = isize::MAX as usize;
        let d = es.max(1);
        let mut counts = vec![0usize, 1, 5, m, m - 1, m / 2, m / 2 + 1, m / d, (m / d).saturating_add(1), im / d, im / d + 1, (im / d).saturating_sub(1), im, im + 1];
        counts.sort();
        counts.dedup();
        for len0 in [0usize, 3] {
            for &n in &counts {
                // std would abort (not panic) on a real allocation failure: only ask std when the
                // request is small or cannot even form a layout
                let total = (len0 as u128 + n as u128) * es as u128;
                let std_safe = es == 0 || total < (1u128 << 20) || total > im as u128 || (len0 as u128 + n as u128) > m as u128;
                for entry in ["with_capacity", "reserve", "reserve_exact", "try_reserve", "try_reserve_exact"] {
                    if entry == "with_capacity" && len0 != 0 { continue; }
                    let bump = Bump::new();
                    let (bres, bcap) = {
                        let r = catch_unwind(AssertUnwindSafe(|| -> (String, usize) {
                            if entry == "with_capacity" {
                                let v: BVec<T> = BVec::with_capacity_in(n, &bump);
                                return ("ok".into(), v.capacity());
                            }
                            let mut v: BVec<T> = BVec::new_in(&bump);
                            for _ in 0..len0 { v.push(T::default()); }
                            let r = match entry {
                                "reserve" => { v.reserve(n); "ok".to_string() }
                                "reserve_exact" => { v.reserve_exact(n); "ok".to_string() }
                                "try_reserve" => match v.try_reserve(n) { Ok(()) => "ok".into(), Err(e) => if format!("{:?}", e).contains("CapacityOverflow") { "err:capacity".into() } else { "err:alloc".into() } },
                                _ => match v.try_reserve_exact(n) { Ok(()) => "ok".into(), Err(e) => if format!("{:?}", e).contains("CapacityOverflow") { "err:capacity".into() } else { "err:alloc".into() } },
                            };
                            (r, v.capacity())
                        }));
                        match r { Ok((s, c)) => (s, c), Err(e) => (format!("panic:{}", panic_kind(e)), 0) }
                    };
                    let sres = if !std_safe { "skip".to_string() } else {
                        let r = catch_unwind(AssertUnwindSafe(|| -> String {
                            if entry == "with_capacity" { let v: Vec<T> = Vec::with_capacity(n); let _ = v.capacity(); return "ok".into(); }
                            let mut v: Vec<T> = Vec::new();
                            for _ in 0..len0 { v.push(T::default()); }
                            match entry {
                                "reserve" => { v.reserve(n); "ok".to_string() }
                                "reserve_exact" => { v.reserve_exact(n); "ok".to_string() }
                                "try_reserve" => match v.try_reserve(n) { Ok(()) => "ok".into(), Err(e) => if format!("{:?}", e).contains("CapacityOverflow") { "err:capacity".into() } else { "err:alloc".into() } },
                                _ => match v.try_reserve_exact(n) { Ok(()) => "ok".into(), Err(e) => if format!("{:?}", e).contains("CapacityOverflow") { "err:capacity".into() } else { "err:alloc".into() } },
                            }
                        }));
                        match r { Ok(s) => s, Err(e) => format!("panic:{}", panic_kind(e)) }
                    };
                    println!("G {} {} {} {} {} | {} {} | {}", entry, es, ea, len0, n, bres, bcap, sres);
                }
            }
        }
    }
    // C18: reallocations of a growing Vec are logarithmic in its length, for every element size;
    // a Vec/String with reserved capacity accepts that many elements without moving
    fn growth<const N: usize>(pushes: usize) {
        let bump = Bump::new();
        let mut v: BVec<[u8; N]> = BVec::new_in(&bump);
        let mut moves = 0usize;
        let mut cap = v.capacity();
        for i in 0..pushes {
            v.push([i as u8; N]);
            // something else is allocated in between, so growth cannot always be in place
            if i % 3 == 0 { bump.alloc(i as u8); }
            if v.capacity() != cap { moves += 1; cap = v.capacity(); }
        }
        let bound = (usize::BITS - pushes.leading_zeros()) as usize + 2;
        println!("R vec_push_growth es={} pushes={} reallocs={} bound={}", N, pushes, moves, bound);
        let n = 1 + pushes / 3;
        let mut w: BVec<[u8; N]> = BVec::with_capacity_in(n, &bump);
        let p0 = w.as_ptr() as usize;
        for i in 0..n { w.push([i as u8; N]); }
        println!("R vec_reserved_no_move es={} n={} moved={} bound=0", N, n, (w.as_ptr() as usize != p0) as usize);
        let mut x: BVec<[u8; N]> = BVec::new_in(&bump);
        x.push([1; N]);
        x.reserve_exact(n);
        let p1 = x.as_ptr() as usize;
        for i in 0..n { x.push([i as u8; N]); }
        println!("R vec_reserve_exact_no_move es={} n={} moved={} bound=0", N, n, (x.as_ptr() as usize != p1) as usize);
    }
    // a Vec with reserved capacity is filled to that capacity through every entry point without moving
    {
        let bump = Bump::new();
        let mut moved = 0usize;
        let mut cases = 0usize;
        for cap in [1usize, 2, 3, 7, 8, 9, 33, 100] {
            for how in 0..12usize {
                let mut v: BVec<u32> = BVec::with_capacity_in(cap, &bump);
                let _neighbour = bump.alloc(0u8);
                let (p0, c0) = (v.as_ptr() as usize, v.capacity());
                let mut i = 0u32;
                while v.len() < c0 {
                    i += 1;
                    match how {
                        0 => v.insert(0, i),
                        1 => { let m = v.len() / 2; v.insert(m, i); }
                        2 => v.extend_from_slice(&[i]),
                        3 => v.extend_from_slice_copy(&[i]),
                        4 => v.extend(std::iter::once(i)),
                        5 => { let n = v.len() + 1; v.resize(n, i); }
                        6 => { let m = v.len() / 2; v.splice(m..m, std::iter::once(i)); }
                        7 => { let mut o = bumpalo::vec![in &bump; i]; v.append(&mut o); }
                        8 => { let room = c0 - v.len(); v.extend((0..room as u32).map(|k| k + i)); }
                        9 => { let room = c0 - v.len(); let n = v.len() + room; v.resize(n, i); }
                        10 => { let room = c0 - v.len(); v.reserve(room); v.push(i); }
                        _ => { let room = c0 - v.len(); v.try_reserve_exact(room).unwrap(); v.push(i); }
                    }
                    if v.as_ptr() as usize != p0 || v.capacity() != c0 { moved += 1; break; }
                }
                cases += 1;
            }
        }
        println!("R vec_reserved_no_move_every_entry es=4 cases={} moved={} bound=0", cases, moved);
    }
    // emptying or shortening a vector (clear, truncate, drain, split_off at 0 / in the middle / at the end,
    // retain nothing, pop all) keeps its reservation: it is refilled to the old capacity without moving
    {
        let bump = Bump::new();
        let mut moved = 0usize;
        let mut cases = 0usize;
        for cap in [4usize, 9, 64] {
            for fill in [0usize, 1, cap / 2, cap] {
                for how in 0..9usize {
                    let mut v: BVec<u32> = BVec::with_capacity_in(cap, &bump);
                    for i in 0..fill { v.push(i as u32); }
                    let mut st = bumpalo::collections::String::with_capacity_in(cap, &bump);
                    for _ in 0..fill { st.push('s'); }
                    let _neighbour = bump.alloc(0u8);
                    let (p0, c0, sp0, sc0) = (v.as_ptr() as usize, v.capacity(), st.as_ptr() as usize, st.capacity());
                    match how {
                        0 => { v.clear(); st.clear(); }
                        1 => { v.truncate(0); st.truncate(0); }
                        2 => { v.drain(..); st.drain(..); }
                        3 => { let _t = v.split_off(0); let _u = st.split_off(0); }
                        4 => { let m = v.len() / 2; let _t = v.split_off(m); let _u = st.split_off(m); }
                        5 => { let m = v.len(); let _t = v.split_off(m); let _u = st.split_off(m); }
                        6 => { v.retain(|_| false); st.retain(|_| false); }
                        7 => { while v.pop().is_some() {} while st.pop().is_some() {} }
                        _ => { let mut o = BVec::new_in(&bump); o.append(&mut v); }
                    }
                    if v.capacity() != c0 || st.capacity() != sc0 { moved += 1; }
                    while v.len() < c0 { v.push(7); if v.as_ptr() as usize != p0 || v.capacity() != c0 { moved += 1; break; } }
                    while st.len() < sc0 { st.push('t'); if st.as_ptr() as usize != sp0 || st.capacity() != sc0 { moved += 1; break; } }
                    cases += 1;
                }
            }
        }
        println!("R vec_reservation_kept_by_shortening es=4 cases={} moved={} bound=0", cases, moved);
    }
    // a String with reserved capacity takes characters of every width up to that capacity without moving
    {
        use std::fmt::Write as _;
        let bump = Bump::new();
        let mut moved = 0usize;
        let mut cases = 0usize;
        for cap in 1usize..=24 {
            for ch in ['a', 'é', '€', '𝄞'] {
                for how in 0..10 {
                    let mut st = bumpalo::collections::String::with_capacity_in(cap, &bump);
                    if how == 3 { st = bumpalo::collections::String::new_in(&bump); st.push('x'); st.reserve(cap); }
                    let _neighbour = bump.alloc(0u8);      // growing in place is not possible
                    let (p0, c0) = (st.as_ptr() as usize, st.capacity());
                    while st.len() + ch.len_utf8() <= c0 {
                        match how {
                            0 | 3 => st.push(ch),
                            1 => { let _ = st.write_char(ch); }
                            2 => st.extend(std::iter::once(ch)),
                            // every other way of putting characters in, at the front, in the middle and at the end
                            4 => st.insert(0, ch),
                            5 => { let mut m = st.len() / 2; while !st.is_char_boundary(m) { m -= 1; } st.insert(m, ch); }
                            6 => { let mut b = [0u8; 4]; st.insert_str(0, ch.encode_utf8(&mut b)); }
                            7 => { let mut b = [0u8; 4]; let at = st.len(); st.insert_str(at, ch.encode_utf8(&mut b)); }
                            8 => { let mut b = [0u8; 4]; st.push_str(ch.encode_utf8(&mut b)); }
                            _ => { let mut b = [0u8; 4]; let at = st.len(); st.replace_range(at..at, ch.encode_utf8(&mut b)); }
                        }
                        if st.as_ptr() as usize != p0 || st.capacity() != c0 { moved += 1; break; }
                    }
                    cases += 1;
                }
            }
        }
        println!("R string_reserved_no_move es=1 cases={} moved={} bound=0", cases, moved);
    }
    // every way of growing a vector by one element at a time reallocates logarithmically often
    fn growth_by(how: usize, steps: usize) {
        let bump = Bump::new();
        let mut v: BVec<u32> = BVec::new_in(&bump);
        let (mut moves, mut cap) = (0usize, v.capacity());
        for i in 0..steps {
            let x = i as u32;
            match how {
                0 => v.resize(v.len() + 1, x),
                1 => v.extend(std::iter::once(x)),
                2 => v.extend_from_slice(&[x]),
                3 => v.extend_from_slice_copy(&[x]),
                4 => v.insert(v.len() / 2, x),
                5 => { let mut o = bumpalo::vec![in &bump; x]; v.append(&mut o); }
                6 => v.extend_from_slices_copy(&[&[x]]),
                7 => v.push(x),
                9 => { v.try_reserve(1).unwrap(); v.push(x); }
                // splice with a tail behind the range and a replacement longer than the range
                10 => { let m = v.len() / 2; v.splice(m..m, std::iter::once(x)); }
                11 => { let m = v.len() / 2; let e = (m + 1).min(v.len()); v.splice(m..e, [x, x + 1]); }
                12 => { v.insert(0, x); }
                _ => v.reserve(1),
            }
            if how == 8 { unsafe { v.set_len(v.len() + 1) }; }
            if i % 3 == 0 { bump.alloc(i as u8); }
            if v.capacity() != cap { moves += 1; cap = v.capacity(); }
        }
        let bound = (usize::BITS - steps.leading_zeros()) as usize + 2;
        let name = ["resize", "extend_once", "extend_from_slice", "extend_from_slice_copy", "insert", "append", "extend_from_slices_copy", "push", "reserve_one", "try_reserve_one", "splice_insert", "splice_replace", "insert_front"][how];
        println!("R vec_growth_by_{} es=4 steps={} reallocs={} bound={}", name, steps, moves, bound);
    }
    for how in [0usize, 1, 2, 3, 4, 5, 6, 8, 9, 10, 11, 12] { growth_by(how, 1500); }
    {
        // io::Write for Vec<u8> and String::push_str / insert / extend, one unit at a time
        use std::io::Write;
        let bump = Bump::new();
        let mut w: BVec<u8> = BVec::new_in(&bump);
        let (mut moves, mut cap) = (0usize, w.capacity());
        for i in 0..3000usize { w.write_all(&[i as u8]).unwrap(); if i % 3 == 0 { bump.alloc(i as u8); } if w.capacity() != cap { moves += 1; cap = w.capacity(); } }
        println!("R vec_growth_by_io_write es=1 steps=3000 reallocs={} bound=14", moves);
        for how in 0..6usize {
            let mut st = bumpalo::collections::String::new_in(&bump);
            let (mut moves, mut cap) = (0usize, st.capacity());
            for i in 0..3000usize {
                match how {
                    0 => st.push_str("a"),
                    1 => st.insert(st.len() / 2, 'a'),
                    2 => st.extend(std::iter::once('a')),
                    3 => { let m = st.len() / 2; st.replace_range(m..m, "a") }
                    4 => st.insert_str(0, "a"),
                    _ => { use std::fmt::Write as _; let _ = write!(st, "{}", i % 10); }
                }
                if i % 3 == 0 { bump.alloc(i as u8); }
                if st.capacity() != cap { moves += 1; cap = st.capacity(); }
            }
            println!("R string_growth_by_{} es=1 steps=3000 reallocs={} bound=14", ["push_str", "insert", "extend_once", "replace_range", "insert_str", "write_fmt"][how], moves);
        }
    }
    growth::<1>(3000); growth::<3>(1000); growth::<8>(1000); growth::<24>(600); growth::<100>(300);
    growth::<1024>(120); growth::<1025>(120); growth::<2048>(100); growth::<4096>(80);
    {
        let bump = Bump::new();
        let mut st = bumpalo::collections::String::new_in(&bump);
        let (mut moves, mut cap) = (0usize, st.capacity());
        for i in 0..5000usize {
            st.push(if i % 7 == 0 { 'é' } else { 'a' });
            if i % 5 == 0 { bump.alloc(i as u8); }
            if st.capacity() != cap { moves += 1; cap = st.capacity(); }
        }
        println!("R string_push_growth es=1 pushes=5000 reallocs={} bound=16", moves);
        let mut s2 = bumpalo::collections::String::with_capacity_in(777, &bump);
        let p0 = s2.as_ptr() as usize;
        for _ in 0..777 { s2.push('x'); }
        println!("R string_reserved_no_move es=1 n=777 moved={} bound=0", (s2.as_ptr() as usize != p0) as usize);
    }
    // C13 / C09: a fallible reservation that the arena refuses (allocation limit reached) leaves the vector
    // exactly as it was: its buffer is still its own, so later allocations do not land on it and pushes
    // within the capacity it still reports disturb nobody
    {
        for (cap0, len0) in [(8usize, 0usize), (8, 3), (64, 0), (64, 64), (1, 0)] {
            for exact in [false, true] {
                let bump = Bump::new();
                let mut v: BVec<u64> = BVec::with_capacity_in(cap0, &bump);
                for i in 0..len0 { v.push(1000 + i as u64); }
                let cap_before = v.capacity();
                bump.set_allocation_limit(Some(bump.allocated_bytes()));
                let big = 1usize << 20;
                let r = if exact { v.try_reserve_exact(big) } else { v.try_reserve(big) };
                bump.set_allocation_limit(None);
                let refused = r.is_err();
                let neighbour = bump.alloc_slice_fill_copy(16, 0xABABABABABABABABu64);
                let room = v.capacity() - v.len();
                for i in 0..room { v.push(2000 + i as u64); }
                let contents_ok = v.iter().take(len0).enumerate().all(|(i, x)| *x == 1000 + i as u64)
                    && v.iter().skip(len0).enumerate().all(|(i, x)| *x == 2000 + i as u64);
                let neighbour_ok = neighbour.iter().all(|x| *x == 0xABABABABABABABAB);
                if !refused || v.capacity() < cap_before || !contents_ok || !neighbour_ok {
                    println!("X neighbour or buffer wrong after a refused try_reserve cap={} len={} exact={} refused={} cap_after={} contents_ok={} neighbour_ok={}", cap0, len0, exact as u8, refused as u8, v.capacity(), contents_ok as u8, neighbour_ok as u8);
                }
                let mut st = bumpalo::collections::String::with_capacity_in(cap0, &bump);
                for _ in 0..len0.min(cap0) { st.push('s'); }
                // (the arena String has no try_reserve: the infallible reserve must panic with the buffer kept)
                bump.set_allocation_limit(Some(bump.allocated_bytes()));
                let r = catch_unwind(AssertUnwindSafe(|| if exact { st.reserve_exact(big) } else { st.reserve(big) }));
                bump.set_allocation_limit(None);
                let nb2 = bump.alloc_slice_fill_copy(24, 0xCDu8);
                while st.len() < st.capacity() { st.push('t'); }
                if r.is_ok() || nb2.iter().any(|x| *x != 0xCD) || !st.chars().all(|c| c == 's' || c == 't') {
                    println!("X neighbour or buffer wrong after a refused String::reserve cap={} len={} exact={}", cap0, len0, exact as u8);
                }
            }
        }
    }
    // C13: the constructors and conversions that collect from an iterator (collect_in.rs, from_iter_in,
    // into_* conversions) against std's collect, for honest and lying size hints, with Option/Result
    // short-circuits
    {
        use bumpalo::collections::CollectIn;
        let bump = Bump::new();
        let show = |v: &[u32]| v.iter().map(|x| x.to_string()).collect::<Vec<_>>().join(",");
        for n in [0usize, 1, 2, 5, 9, 33] {
            for hint in [0usize, 1, 3, 8, 40] {
                struct It { left: usize, hint: usize, exact: bool }
                impl Iterator for It {
                    type Item = u32;
                    fn next(&mut self) -> Option<u32> { if self.left == 0 { None } else { self.left -= 1; Some(self.left as u32 * 3) } }
                    fn size_hint(&self) -> (usize, Option<usize>) { (self.hint, if self.exact { Some(self.hint) } else { None }) }
                }
                for exact in [false, true] {
                    let mk = || It { left: n, hint, exact };
                    let s: Vec<u32> = mk().collect();
                    let b1: BVec<u32> = mk().collect_in(&bump);
                    let b2: bumpalo::boxed::Box<[u32]> = mk().collect_in(&bump);
                    let b3: BVec<u32> = BVec::from_iter_in(mk(), &bump);
                    let b4 = bumpalo::boxed::Box::<[u32]>::from_iter_in(mk(), &bump);
                    let b5 = { let v: BVec<u32> = mk().collect_in(&bump); v.into_bump_slice().to_vec() };
                    let b6 = { let v: BVec<u32> = mk().collect_in(&bump); let b = v.into_boxed_slice(); b.to_vec() };
                    let all = [b1.to_vec(), b3.to_vec(), b5];
                    let ok = all.iter().all(|x| *x == s);
                    println!("Q collect n={} hint={} exact={} | {} | {}", n, hint, exact as u8, if ok { "same".to_string() } else { all.iter().map(|x| show(x)).collect::<Vec<_>>().join("/") }, show(&s));
                    // the conversions that end in a Box<[T]> (C17: like std's Box)
                    let sb: std::boxed::Box<[u32]> = mk().collect();
                    let allb = [b2.to_vec(), b4.to_vec(), b6];
                    let okb = allb.iter().all(|x| x[..] == sb[..]);
                    println!("Q box_collect n={} hint={} exact={} | {} | {}", n, hint, exact as u8, if okb { "same".to_string() } else { allb.iter().map(|x| show(x)).collect::<Vec<_>>().join("/") }, show(&sb));
                    // Option / Result: stop at the first None / Err
                    for stop in [0usize, 1, n / 2, n] {
                        let so: Option<Vec<u32>> = mk().enumerate().map(|(i, x)| if i == stop && stop < n { None } else { Some(x) }).collect();
                        let bo: Option<BVec<u32>> = mk().enumerate().map(|(i, x)| if i == stop && stop < n { None } else { Some(x) }).collect_in(&bump);
                        let sr: Result<Vec<u32>, usize> = mk().enumerate().map(|(i, x)| if i == stop && stop < n { Err(i) } else { Ok(x) }).collect();
                        let br: Result<BVec<u32>, usize> = mk().enumerate().map(|(i, x)| if i == stop && stop < n { Err(i) } else { Ok(x) }).collect_in(&bump);
                        let same = so == bo.map(|v| v.to_vec()) && sr == br.map(|v| v.to_vec());
                        if !same { println!("Q collect_opt_res n={} stop={} | differs | -", n, stop); }
                    }
                }
            }
        }
        // trait forwarding of Vec: comparisons (also against slices and arrays), ordering with NaN inside,
        // hashing, Debug with the caller's flags, Borrow / AsRef / Index, iteration by reference
        {
            use std::hash::{Hash, Hasher};
            let fs = [0.0f64, 1.5, -1.0, f64::NAN, 2.0];
            for i in 0..fs.len() {
                for j in 0..fs.len() {
                    for (la, lb) in [(0usize, 0usize), (1, 1), (2, 1), (1, 2), (3, 3)] {
                        let a: Vec<f64> = (0..la).map(|k| fs[(i + k) % 5]).collect();
                        let b: Vec<f64> = (0..lb).map(|k| fs[(j + k * 2) % 5]).collect();
                        let (ba, bb) = (BVec::from_iter_in(a.iter().copied(), &bump), BVec::from_iter_in(b.iter().copied(), &bump));
                        let same = (ba == bb) == (a == b) && (ba != bb) == (a != b) && (ba < bb) == (a < b) && (ba <= bb) == (a <= b)
                            && (ba > bb) == (a > b) && (ba >= bb) == (a >= b) && ba.partial_cmp(&bb) == a.partial_cmp(&b)
                            && (ba == &b[..]) == (a == &b[..])
                            && format!("{:?}|{:8.2?}|{:#?}|{:+?}", ba, ba, ba, ba) == format!("{:?}|{:8.2?}|{:#?}|{:+?}", a, a, a, a);
                        if !same { println!("Q vec_traits_f64 i={} j={} la={} lb={} | differs | -", i, j, la, lb); }
                    }
                }
            }
            let mut bad = 0;
            for n in 0..6u32 {
                for m in 0..6u32 {
                    let a: Vec<u32> = (0..n).map(|k| k * 7 % 5).collect();
                    let b: Vec<u32> = (0..m).map(|k| k * 3 % 5).collect();
                    let (ba, bb) = (BVec::from_iter_in(a.iter().copied(), &bump), BVec::from_iter_in(b.iter().copied(), &bump));
                    let h = |x: &dyn Fn(&mut std::collections::hash_map::DefaultHasher)| { let mut st = std::collections::hash_map::DefaultHasher::new(); x(&mut st); st.finish() };
                    let ar3: [u32; 3] = [0, 2, 4];
                    let ok = ba.cmp(&bb) == a.cmp(&b) && (ba == bb) == (a == b)
                        && h(&|st| ba.hash(st)) == h(&|st| a.hash(st)) && h(&|st| ba.hash(st)) == h(&|st| a[..].hash(st))
                        && (ba == ar3) == (a == ar3) && (ba == &ar3) == (a == &ar3)
                        && format!("{:?}|{:#x?}|{:03?}", ba, ba, ba) == format!("{:?}|{:#x?}|{:03?}", a, a, a)
                        && std::borrow::Borrow::<[u32]>::borrow(&ba) == &a[..] && AsRef::<[u32]>::as_ref(&ba) == &a[..]
                        && (&ba).into_iter().copied().collect::<Vec<u32>>() == a && ba.iter().rev().copied().collect::<Vec<u32>>() == a.iter().rev().copied().collect::<Vec<u32>>()
                        && (n == 0 || (ba[(n - 1) as usize] == a[(n - 1) as usize] && ba[..(n as usize / 2)] == a[..(n as usize / 2)]))
                        && ba.clone().to_vec() == a && ba.first() == a.first() && ba.last() == a.last();
                    // the mutable side: IndexMut, AsMut, BorrowMut, DerefMut, iteration by &mut, and the Debug
                    // output of the draining iterators
                    let mut ok = ok;
                    {
                        let (mut bm, mut sm) = (ba.clone(), a.clone());
                        if n > 0 { bm[0] = 77; sm[0] = 77; bm[..(n as usize)][n as usize - 1] += 1; sm[..(n as usize)][n as usize - 1] += 1; }
                        AsMut::<[u32]>::as_mut(&mut bm).reverse(); AsMut::<[u32]>::as_mut(&mut sm).reverse();
                        std::borrow::BorrowMut::<[u32]>::borrow_mut(&mut bm).sort(); std::borrow::BorrowMut::<[u32]>::borrow_mut(&mut sm).sort();
                        for x in &mut bm { *x = x.wrapping_mul(3); }
                        for x in &mut sm { *x = x.wrapping_mul(3); }
                        bm.rotate_left(n as usize / 2); sm.rotate_left(n as usize / 2);
                        AsMut::<BVec<u32>>::as_mut(&mut bm).push(5); sm.push(5);
                        ok = ok && bm[..] == sm[..] && AsRef::<BVec<u32>>::as_ref(&bm).len() == sm.len();
                        let k = (m as usize).min(sm.len());
                        ok = ok && format!("{:?}", bm.drain(..k)) == format!("{:?}", sm.drain(..k)) && bm[..] == sm[..];
                        let (mut bi, mut si) = (bm.into_iter(), sm.into_iter());
                        bi.next(); si.next(); bi.next_back(); si.next_back();
                        ok = ok && format!("{:?}", bi) == format!("{:?}", si) && bi.as_slice() == si.as_slice() && bi.len() == si.len();
                    }
                    let mut be = ba.clone(); be.extend(b.iter()); let mut se = a.clone(); se.extend(b.iter());
                    if !ok || be.to_vec() != se { bad += 1; println!("Q vec_traits_u32 n={} m={} | differs | -", n, m); }
                }
            }
            // the vec! macro: same contents as std's, the length expression evaluated once, the element
            // expression once (for n > 0), n - 1 clones
            {
                use std::cell::Cell;
                thread_local! { static CLONES: Cell<u32> = Cell::new(0); }
                #[derive(PartialEq, Debug)]
                struct Ck(u32);
                impl Clone for Ck { fn clone(&self) -> Ck { CLONES.with(|c| c.set(c.get() + 1)); Ck(self.0) } }
                for n in [0usize, 1, 2, 5, 17] {
                    let (mut nb, mut eb, mut ns, mut es) = (0u32, 0u32, 0u32, 0u32);
                    CLONES.with(|c| c.set(0));
                    let vb = bumpalo::vec![in &bump; { eb += 1; Ck(7) }; { nb += 1; n }];
                    let cb = CLONES.with(|c| c.replace(0));
                    let vs = std::vec![{ es += 1; Ck(7) }; { ns += 1; n }];
                    let cs = CLONES.with(|c| c.replace(0));
                    let ok = vb.len() == vs.len() && vb.iter().eq(vs.iter()) && nb == ns && (n == 0 || (eb == es && cb == cs)) && vb.capacity() >= n;
                    if !ok { bad += 1; println!("Q vec_macro_repeat n={} | len={} n_evals={} elem_evals={} clones={} | len={} n_evals={} elem_evals={} clones={}", n, vb.len(), nb, eb, cb, vs.len(), ns, es, cs); }
                }
                let mut it = [2usize, 5, 1].iter().copied();
                let vb = bumpalo::vec![in &bump; 1u32; it.next().unwrap()];
                let mut it2 = [2usize, 5, 1].iter().copied();
                let vs = std::vec![1u32; it2.next().unwrap()];
                if vb.len() != vs.len() || it.next() != it2.next() { bad += 1; println!("Q vec_macro_repeat_iter | len={} | len={}", vb.len(), vs.len()); }
                let mut k = 0u32;
                let vb = bumpalo::vec![in &bump; { k += 1; k }, { k += 1; k }, { k += 1; k },];
                let mut k2 = 0u32;
                let vs = std::vec![{ k2 += 1; k2 }, { k2 += 1; k2 }, { k2 += 1; k2 },];
                let ve: BVec<u8> = bumpalo::vec![in &bump];
                if vb.as_slice() != vs.as_slice() || !ve.is_empty() { bad += 1; println!("Q vec_macro_list | {:?} | {:?}", vb, vs); }
            }
            println!("Q vec_traits_sweep | {} | same", if bad == 0 { "same".to_string() } else { format!("{}_cases_differ", bad) });
        }
        // Option / Result with an early None / Err from a source whose lower size hint is huge (a
        // repeat-like source): std answers None / Err(e) without reserving anything
        {
            struct Big { left: usize, hint: usize }
            impl Iterator for Big {
                type Item = u32;
                fn next(&mut self) -> Option<u32> { if self.left == 0 { None } else { self.left -= 1; Some(self.left as u32) } }
                fn size_hint(&self) -> (usize, Option<usize>) { (self.hint, None) }
            }
            for hint in [usize::MAX, usize::MAX / 2, 1usize << 45] {
                for stop in [0usize, 2] {
                    let so: Option<Vec<u32>> = Big { left: 5, hint }.enumerate().map(|(i, x)| if i == stop { None } else { Some(x) }).collect();
                    let sr: Result<Vec<u32>, usize> = Big { left: 5, hint }.enumerate().map(|(i, x)| if i == stop { Err(i) } else { Ok(x) }).collect();
                    let bo = catch_unwind(AssertUnwindSafe(|| { let b = Bump::new(); let r: Option<BVec<u32>> = Big { left: 5, hint }.enumerate().map(|(i, x)| if i == stop { None } else { Some(x) }).collect_in(&b); r.map(|v| v.to_vec()) }));
                    let br = catch_unwind(AssertUnwindSafe(|| { let b = Bump::new(); let r: Result<BVec<u32>, usize> = Big { left: 5, hint }.enumerate().map(|(i, x)| if i == stop { Err(i) } else { Ok(x) }).collect_in(&b); r.map(|v| v.to_vec()) }));
                    let bb = catch_unwind(AssertUnwindSafe(|| { let b = Bump::new(); let r: Option<bumpalo::boxed::Box<[u32]>> = Big { left: 5, hint }.enumerate().map(|(i, x)| if i == stop { None } else { Some(x) }).collect_in(&b); r.map(|v| v.to_vec()) }));
                    let same = matches!(&bo, Ok(x) if *x == so) && matches!(&br, Ok(x) if *x == sr) && matches!(&bb, Ok(x) if *x == so);
                    if !same { println!("Q collect_early_stop_huge_hint hint={} stop={} | option:{} result:{} boxed:{} | none_or_err", hint, stop, if bo.is_err() { "panic" } else { "differs_or_ok" }, if br.is_err() { "panic" } else { "differs_or_ok" }, if bb.is_err() { "panic" } else { "differs_or_ok" }); }
                }
            }
        }
        // dedup_by_key with a key function that logs its calls, and the raw-parts round trip
        {
            let mut bad = 0usize;
            for n in [0usize, 1, 2, 7, 20] {
                for m in [1u32, 2, 3] {
                    let data: Vec<u32> = (0..n as u32).map(|i| (i * 7 + i / 3) % 11).collect();
                    let mut sv = data.clone();
                    let mut bv: BVec<u32> = BVec::from_iter_in(data.iter().copied(), &bump);
                    let (mut sl, mut bl) = (Vec::new(), Vec::new());
                    sv.dedup_by_key(|x| { sl.push(*x); *x / m });
                    bv.dedup_by_key(|x| { bl.push(*x); *x / m });
                    if sv[..] != bv[..] || sl != bl { bad += 1; if bad <= 2 { println!("Q vec_dedup_by_key n={} m={} | {:?} calls={:?} | {:?} calls={:?}", n, m, &bv[..], bl, sv, sl); } }
                }
                // take a vector apart and put it together again: same contents, same capacity, and
                // the elements are dropped once, by the rebuilt vector
                use std::cell::RefCell;
                use std::rc::Rc;
                struct D(u32, Rc<RefCell<Vec<u32>>>);
                impl Drop for D { fn drop(&mut self) { self.1.borrow_mut().push(self.0); } }
                let led = Rc::new(RefCell::new(Vec::new()));
                let mut v: BVec<D> = BVec::with_capacity_in(n + 3, &bump);
                for i in 0..n as u32 { v.push(D(i, led.clone())); }
                let (p, l, c) = (v.as_mut_ptr(), v.len(), v.capacity());
                std::mem::forget(v);
                let mut w = unsafe { BVec::from_raw_parts_in(p, l, c, &bump) };
                let same = w.len() == n && w.capacity() == c && w.as_ptr() == p as *const D && w.iter().map(|d| d.0).eq(0..n as u32) && led.borrow().is_empty();
                w.push(D(99, led.clone()));
                let still = w.as_ptr() == p as *const D;
                drop(w);
                let mut all = led.borrow().clone();
                all.sort();
                let want: Vec<u32> = (0..n as u32).chain(std::iter::once(99)).collect();
                if !same || !still || all != want { bad += 1; if bad <= 2 { println!("Q vec_from_raw_parts n={} | same={} in_place_push={} dropped={:?} | -", n, same, still, all); } }
            }
            println!("Q vec_dedup_key_raw_parts_sweep | {} | same", if bad == 0 { "same".to_string() } else { format!("{}_cases_differ", bad) });
        }
        // C15 / C16: growing operations when the arena refuses the memory (chunk full, limit reached): the
        // out-of-memory report is an unwinding panic, so the vector is observable afterwards — every
        // element is still owned exactly once (dropped once in the end, none twice, none lost except by
        // a documented leak), whatever operation was under way
        {
            use std::cell::RefCell;
            use std::rc::Rc;
            struct D(u32, Rc<RefCell<Vec<u32>>>);
            impl Drop for D { fn drop(&mut self) { self.1.borrow_mut().push(self.0); } }
            impl Clone for D { fn clone(&self) -> D { D(self.0 + 1000, self.1.clone()) } }
            let mut bad = 0usize;
            for slack in 0..3usize {
                for how in 0..9usize {
                    let b2 = Bump::new();
                    let led = Rc::new(RefCell::new(Vec::new()));
                    let mut made: Vec<u32> = Vec::new();
                    let mut v: BVec<D> = BVec::with_capacity_in(4 + slack, &b2);
                    for i in 0..4u32 { v.push(D(i, led.clone())); made.push(i); }
                    let room = b2.chunk_capacity();
                    let _fill = b2.alloc_slice_fill_copy(room, 0u8);
                    b2.set_allocation_limit(Some(b2.allocated_bytes()));
                    let l2 = led.clone();
                    let mut fresh = |n: u32, made: &mut Vec<u32>| -> Vec<D> { (0..n).map(|i| { made.push(100 + i); D(100 + i, l2.clone()) }).collect() };
                    let items = fresh(6, &mut made);
                    let r = catch_unwind(AssertUnwindSafe(|| match how {
                        0 => { for x in items { v.push(x); } }
                        1 => { v.extend(items); }
                        2 => { let mut it = items.into_iter(); let first = it.next().unwrap(); v.insert(1, first); for x in it { v.insert(0, x); } }
                        3 => { v.splice(1..2, items); }
                        4 => { v.splice(1..1, items); }
                        5 => { let x = items.into_iter().next().unwrap(); v.resize(12, x); }
                        6 => { let mut o: BVec<D> = BVec::new_in(&b2); for x in items { o.push(x); } v.append(&mut o); }
                        7 => { let c = v.clone(); drop(items); drop(c); }
                        _ => { let src: Vec<D> = items; v.extend_from_slice(&src); }
                    }));
                    b2.set_allocation_limit(None);
                    let _ = r;
                    let held: Vec<u32> = v.iter().map(|d| d.0).collect();
                    drop(v);
                    let mut all = led.borrow().clone();
                    all.sort();
                    let dup = all.windows(2).any(|w| w[0] == w[1]);
                    // every element that was held at the end has now been dropped
                    let held_dropped = held.iter().all(|h| all.binary_search(h).is_ok());
                    if dup || !held_dropped {
                        bad += 1;
                        if bad <= 2 { println!("Q drops_once refused_growth how={} slack={} | held={:?} dropped={:?} | no_duplicates", how, slack, held, all); }
                    }
                }
            }
            println!("Q drops_once refused_growth_sweep | {} | same", if bad == 0 { "same".to_string() } else { format!("{}_cases_differ", bad) });
        }
        // C13: io::Write for Vec<u8>, called directly: every write takes the whole buffer and says so,
        // whatever the spare capacity (std's Vec<u8> does; a short write would be legal for io::Write
        // but is not what std's Vec does), and write_all / write! / flush agree with std
        {
            use std::io::Write;
            let mut bad = 0usize;
            for cap in 0..7usize {
                for pre in 0..=cap {
                    for n in 0..9usize {
                        let mut bv: BVec<u8> = BVec::with_capacity_in(cap, &bump);
                        let mut sv: Vec<u8> = Vec::with_capacity(cap);
                        for i in 0..pre { bv.push(i as u8); sv.push(i as u8); }
                        let buf: Vec<u8> = (0..n as u8).map(|x| 100 + x).collect();
                        let rb = bv.write(&buf).ok();
                        let rs = sv.write(&buf).ok();
                        let rb2 = bv.write(&buf[..n / 2]).ok();
                        let rs2 = sv.write(&buf[..n / 2]).ok();
                        let wb = bv.write_all(&buf).is_ok() && write!(bv, "{}-{}", n, cap).is_ok() && bv.flush().is_ok();
                        let ws = sv.write_all(&buf).is_ok() && write!(sv, "{}-{}", n, cap).is_ok() && sv.flush().is_ok();
                        if rb != rs || rb2 != rs2 || wb != ws || bv[..] != sv[..] {
                            bad += 1;
                            if bad <= 2 { println!("Q vec_io_write cap={} len={} buf={} | wrote={:?},{:?} contents={:?} | wrote={:?},{:?} contents={:?}", cap, pre, n, rb, rb2, &bv[..], rs, rs2, &sv[..]); }
                        }
                    }
                }
            }
            println!("Q vec_io_write_sweep | {} | same", if bad == 0 { "same".to_string() } else { format!("{}_cases_differ", bad) });
        }
        // C13 / C15: drain_filter with a predicate that writes through its &mut T (adds to the value, or
        // replaces it, dropping the old one): the kept elements carry the modification, the removed ones
        // are yielded with it, and every value — old and new — is dropped exactly once. All removal masks.
        {
            use std::cell::RefCell;
            use std::rc::Rc;
            struct D(u32, Rc<RefCell<Vec<u32>>>);
            impl Drop for D { fn drop(&mut self) { self.1.borrow_mut().push(self.0); } }
            let mut bad = 0usize;
            for n in 0..7u32 {
                for mask in 0..(1u32 << n) {
                    for replace in [false, true] {
                        let led = Rc::new(RefCell::new(Vec::new()));
                        let mut v: BVec<D> = BVec::new_in(&bump);
                        for i in 0..n { v.push(D(i, led.clone())); }
                        let mut seen = 0u32;
                        let l2 = led.clone();
                        let removed: Vec<u32> = v.drain_filter(|x| {
                            let i = seen; seen += 1;
                            if replace { *x = D(x.0 + 100, l2.clone()); } else { x.0 += 100; }
                            mask >> i & 1 == 1
                        }).map(|d| d.0).collect();
                        let kept: Vec<u32> = v.iter().map(|d| d.0).collect();
                        let want_removed: Vec<u32> = (0..n).filter(|i| mask >> i & 1 == 1).map(|i| i + 100).collect();
                        let want_kept: Vec<u32> = (0..n).filter(|i| mask >> i & 1 == 0).map(|i| i + 100).collect();
                        drop(v);
                        let mut all = led.borrow().clone();
                        all.sort();
                        let want_all: Vec<u32> = if replace { (0..n).chain((0..n).map(|i| i + 100)).collect() } else { (0..n).map(|i| i + 100).collect() };
                        if removed != want_removed || kept != want_kept || all != want_all {
                            bad += 1;
                            if bad <= 2 { println!("Q drops_once drain_filter_mutating n={} mask={} replace={} | kept={:?} removed={:?} dropped={:?} | kept={:?} removed={:?} dropped={:?}", n, mask, replace as u8, kept, removed, all, want_kept, want_removed, want_all); }
                        }
                    }
                }
            }
            println!("Q drops_once drain_filter_mutating_sweep | {} | same", if bad == 0 { "same".to_string() } else { format!("{}_cases_differ", bad) });
        }
        // C15: replacing a vector wholesale (clone_from with a shorter, equal and longer source, plain
        // assignment, clear + extend): every element the destination held is dropped exactly once, the
        // source's elements are not dropped at all, the result holds clones of the source, in order
        {
            use std::cell::RefCell;
            use std::rc::Rc;
            struct D(u32, Rc<RefCell<Vec<u32>>>);
            impl Drop for D { fn drop(&mut self) { self.1.borrow_mut().push(self.0); } }
            impl Clone for D { fn clone(&self) -> D { D(self.0 + 1000, self.1.clone()) } }
            let mut bad = 0usize;
            for dl in 0..6u32 {
                for sl in 0..6u32 {
                    for how in 0..3 {
                        let led = Rc::new(RefCell::new(Vec::new()));
                        let mut dst: BVec<D> = BVec::new_in(&bump);
                        for i in 0..dl { dst.push(D(i, led.clone())); }
                        let mut src: BVec<D> = BVec::with_capacity_in(8, &bump);
                        for i in 0..sl { src.push(D(100 + i, led.clone())); }
                        match how {
                            0 => dst.clone_from(&src),
                            1 => { dst = src.clone(); }
                            _ => { dst.clear(); dst.extend(src.iter().cloned()); }
                        }
                        let mut after = led.borrow().clone();
                        after.sort();
                        // clone_from may drop-and-replace or assign element-wise: clones made for the common
                        // prefix may be dropped as well (ids >= 1000), the old elements must be, once each
                        let old_dropped: Vec<u32> = after.iter().cloned().filter(|x| *x < 100).collect();
                        let src_dropped = after.iter().any(|x| (100..1000).contains(x));
                        let holds = dst.iter().map(|d| d.0).eq((0..sl).map(|i| 1100 + i));
                        let src_ok = src.iter().map(|d| d.0).eq((0..sl).map(|i| 100 + i));
                        if old_dropped != (0..dl).collect::<Vec<u32>>() || src_dropped || !holds || !src_ok {
                            bad += 1;
                            if bad <= 2 { println!("Q drops_once replace_whole how={} dst_len={} src_len={} | old_dropped={:?} src_dropped={} holds_clones={} | -", how, dl, sl, old_dropped, src_dropped as u8, holds as u8); }
                        }
                        led.borrow_mut().clear();
                        drop(dst);
                        drop(src);
                        let mut fin = led.borrow().clone();
                        fin.sort();
                        let want: Vec<u32> = (0..sl).map(|i| 100 + i).chain((0..sl).map(|i| 1100 + i)).collect();
                        if fin != want {
                            bad += 1;
                            if bad <= 2 { println!("Q drops_once replace_whole_final how={} dst_len={} src_len={} | dropped={:?} | {:?}", how, dl, sl, fin, want); }
                        }
                    }
                }
            }
            println!("Q drops_once replace_whole_sweep | {} | same", if bad == 0 { "same".to_string() } else { format!("{}_cases_differ", bad) });
        }
        // Option / Result collects into boxed slices and vectors from a source that fails more than once
        // and counts what is taken from it: which error comes back and how far the source was consumed
        // must be std's; and a source that is not fused (None first, items afterwards) yields nothing
        {
            use std::cell::Cell;
            let items: [Result<u32, &str>; 6] = [Err("first"), Ok(2), Err("second"), Ok(4), Ok(5), Err("third")];
            let mut bad = 0usize;
            for start in 0..items.len() {
                for end in start..=items.len() {
                    let (ts, tb, tv) = (Cell::new(0usize), Cell::new(0usize), Cell::new(0usize));
                    let sr: Result<std::boxed::Box<[u32]>, &str> = items[start..end].iter().cloned().inspect(|_| ts.set(ts.get() + 1)).collect();
                    let br: Result<bumpalo::boxed::Box<[u32]>, &str> = items[start..end].iter().cloned().inspect(|_| tb.set(tb.get() + 1)).collect_in(&bump);
                    let vr: Result<BVec<u32>, &str> = items[start..end].iter().cloned().inspect(|_| tv.set(tv.get() + 1)).collect_in(&bump);
                    let so: Option<std::boxed::Box<[u32]>> = items[start..end].iter().cloned().map(|r| r.ok()).collect();
                    let bo: Option<bumpalo::boxed::Box<[u32]>> = items[start..end].iter().cloned().map(|r| r.ok()).collect_in(&bump);
                    let s1 = sr.map(|b| b.to_vec());
                    if s1 != br.map(|b| b.to_vec()) || s1 != vr.map(|v| v.to_vec()) || ts.get() != tb.get() || ts.get() != tv.get()
                        || so.map(|b| b.to_vec()) != bo.map(|b| b.to_vec()) {
                        bad += 1;
                        if bad <= 2 { println!("Q box_collect_failing_source range={}..{} | differs taken_std={} taken_box={} taken_vec={} | -", start, end, ts.get(), tb.get(), tv.get()); }
                    }
                }
            }
            struct Flaky(u32);
            impl Iterator for Flaky {
                type Item = u32;
                fn next(&mut self) -> Option<u32> { self.0 += 1; match self.0 { 1 => None, 2 => Some(1), 3 => Some(2), _ => None } }
            }
            let sb: std::boxed::Box<[u32]> = Flaky(0).collect();
            let b1 = bumpalo::boxed::Box::<[u32]>::from_iter_in(Flaky(0), &bump);
            let b2: bumpalo::boxed::Box<[u32]> = Flaky(0).collect_in(&bump);
            let b3 = BVec::from_iter_in(Flaky(0), &bump);
            if sb[..] != b1[..] || sb[..] != b2[..] || sb[..] != b3[..] {
                bad += 1;
                println!("Q box_collect_unfused_source | {:?}/{:?}/{:?} | {:?}", &b1[..], &b2[..], &b3[..], &sb[..]);
            }
            println!("Q box_collect_failing_sweep | {} | same", if bad == 0 { "same".to_string() } else { format!("{}_cases_differ", bad) });
        }
        // C15 / C13: the draining iterators under the iterator adaptors that skip items (nth, skip,
        // step_by, nth_back, last, rev): what is returned, what stays in the vector and what is
        // dropped when, against std with a drop ledger; every element is dropped exactly once
        {
            use std::cell::RefCell;
            use std::rc::Rc;
            struct D(u32, Rc<RefCell<Vec<u32>>>);
            impl Drop for D { fn drop(&mut self) { self.1.borrow_mut().push(self.0); } }
            let mut bad = 0usize;
            let mut cases = 0usize;
            macro_rules! scenario {
                ($mk:expr, $n:expr, $a:expr, $b:expr, $k:expr, $how:expr) => {{
                    let led = Rc::new(RefCell::new(Vec::<u32>::new()));
                    let mut v = $mk;
                    for i in 0..$n as u32 { v.push(D(i, led.clone())); }
                    let (a, b, k) = ($a, $b, $k);
                    let got: Vec<u32> = match $how {
                        0 => v.drain(a..b).nth(k).map(|d| d.0).into_iter().collect(),
                        1 => v.drain(a..b).skip(k).map(|d| d.0).collect(),
                        2 => v.drain(a..b).step_by(k + 1).map(|d| d.0).collect(),
                        3 => v.drain(a..b).nth_back(k).map(|d| d.0).into_iter().collect(),
                        4 => v.drain(a..b).rev().skip(k).map(|d| d.0).collect(),
                        5 => v.drain(a..b).last().map(|d| d.0).into_iter().collect(),
                        6 => { let mut it = v.drain(a..b); let x = it.nth(k).map(|d| d.0); let y = it.next().map(|d| d.0); let z = it.nth_back(0).map(|d| d.0); [x, y, z].iter().flatten().copied().collect() }
                        7 => { let w = std::mem::replace(&mut v, $mk); w.into_iter().nth(k).map(|d| d.0).into_iter().collect() }
                        8 => { let w = std::mem::replace(&mut v, $mk); w.into_iter().skip(k).step_by(2).map(|d| d.0).collect() }
                        9 => { let w = std::mem::replace(&mut v, $mk); w.into_iter().nth_back(k).map(|d| d.0).into_iter().collect() }
                        10 => { let w = std::mem::replace(&mut v, $mk); let mut it = w.into_iter(); let x = it.nth(k).map(|d| d.0); let c = it.count() as u32; x.into_iter().chain(std::iter::once(c)).collect() }
                        // folds, counts and the size hints before and after partial consumption
                        11 => { let d = v.drain(a..b); let h = d.size_hint(); let sum = d.fold(0u32, |acc, x| acc * 3 + x.0); vec![h.0 as u32, h.1.unwrap_or(999) as u32, sum] }
                        12 => v.drain(a..b).rfold(Vec::new(), |mut acc, x| { acc.push(x.0); acc }),
                        13 => vec![v.drain(a..b).count() as u32],
                        14 => { let mut d = v.drain(a..b); let h0 = d.size_hint(); let x = d.next().map(|d| d.0); let y = d.next_back().map(|d| d.0); let h1 = d.size_hint(); let l = d.len();
                                vec![h0.0 as u32, h0.1.unwrap_or(999) as u32, x.unwrap_or(77), y.unwrap_or(77), h1.0 as u32, h1.1.unwrap_or(999) as u32, l as u32] }
                        15 => { let w = std::mem::replace(&mut v, $mk); let mut it = w.into_iter(); let h0 = it.size_hint(); for _ in 0..k { it.next(); } let y = it.next_back().map(|d| d.0); let h1 = it.size_hint(); let l = it.len();
                                vec![h0.0 as u32, h0.1.unwrap_or(999) as u32, y.unwrap_or(77), h1.0 as u32, h1.1.unwrap_or(999) as u32, l as u32, it.as_slice().len() as u32] }
                        16 => { let w = std::mem::replace(&mut v, $mk); let mut it = w.into_iter(); for _ in 0..k { it.next_back(); } it.rfold(Vec::new(), |mut acc, x| { acc.push(x.0); acc }) }
                        17 => { let w = std::mem::replace(&mut v, $mk); let mut it = w.into_iter(); it.next(); vec![it.fold(7u32, |acc, x| acc * 5 + x.0)] }
                        18 => { let led2 = led.clone(); let mut sp = v.splice(a..b, (0..k as u32).map(move |i| D(100 + i, led2.clone()))); let h = sp.size_hint(); let x = sp.nth(1).map(|d| d.0); let y = sp.next_back().map(|d| d.0); drop(sp);
                                vec![h.0 as u32, h.1.unwrap_or(999) as u32, x.unwrap_or(77), y.unwrap_or(77)] }
                        19 => { let led2 = led.clone(); v.splice(a..b, (0..k as u32).map(move |i| D(100 + i, led2.clone()))).rev().map(|d| d.0).collect() }
                        // a draining iterator that is leaked after it has yielded something: the vector must not
                        // show what was moved out (it may leak the rest)
                        20 => { let mut d = v.drain(a..b); let x: Vec<u32> = d.by_ref().take(k).map(|d| d.0).collect(); std::mem::forget(d); x }
                        _ => { let mut d = v.drain(a..b); let x: Vec<u32> = d.by_ref().rev().take(k).map(|d| d.0).collect(); std::mem::forget(d); x }
                    };
                    let mut mid = led.borrow().clone();
                    mid.sort();
                    let left: Vec<u32> = v.iter().map(|d| d.0).collect();
                    drop(v);
                    let mut all = led.borrow().clone();
                    all.sort();
                    (got, left, mid, all)
                }};
            }
            for n in [0usize, 1, 4, 7] {
                for a in 0..=n.min(3) {
                    for b in a..=n {
                        for k in 0..4usize {
                            for how in 0..22 {
                                if ((7..=10).contains(&how) || (15..=17).contains(&how)) && (a != 0 || b != n) { continue; }
                                let rb = scenario!(BVec::new_in(&bump), n, a, b, k, how);
                                let rs = scenario!(Vec::new(), n, a, b, k, how);
                                cases += 1;
                                // every original element and every replacement that was produced is dropped exactly once
                                let mut want: Vec<u32> = (0..n as u32).collect();
                                if how >= 18 { want.extend((0..k as u32).map(|i| 100 + i)); }
                                let once = if how >= 20 {
                                    // leaked drains: nothing twice (some elements may never be dropped)
                                    rb.3.windows(2).all(|w| w[0] != w[1]) && rb.0.iter().all(|x| !rb.1.contains(x))
                                } else { rb.3 == want };
                                if rb != rs || !once {
                                    bad += 1;
                                    if bad <= 3 { println!("Q drain_adaptors n={} range={}..{} k={} how={} | got={:?} left={:?} dropped_then={:?} dropped_in_all={:?} | got={:?} left={:?} dropped_then={:?}", n, a, b, k, how, rb.0, rb.1, rb.2, rb.3, rs.0, rs.1, rs.2); }
                                }
                            }
                        }
                    }
                }
            }
            // splice whose replacement iterator is not fused (a None in the middle, items afterwards), in
            // front of a kept tail: like std, the replacement is not polled again after its first None
            // inside the fill; and extend by iterators with a loose upper bound
            {
                struct Gappy(u32, u32);
                impl Iterator for Gappy {
                    type Item = u32;
                    fn next(&mut self) -> Option<u32> { self.0 += 1; if self.0 == self.1 || self.0 > 6 { None } else { Some(100 + self.0) } }
                }
                for n in [3usize, 6] {
                    for a in 0..n {
                        for b in a..n {
                            for gap in 1..5u32 {
                                let mut bv: BVec<u32> = BVec::from_iter_in(0..n as u32, &bump);
                                let mut sv: Vec<u32> = (0..n as u32).collect();
                                let rb: Vec<u32> = bv.splice(a..b, Gappy(0, gap)).collect();
                                let rs: Vec<u32> = sv.splice(a..b, Gappy(0, gap)).collect();
                                cases += 1;
                                if rb != rs || bv[..] != sv[..] {
                                    bad += 1;
                                    if bad <= 3 { println!("Q drain_adaptors splice_unfused n={} range={}..{} gap={} | {:?} | {:?}", n, a, b, gap, &bv[..], sv); }
                                }
                            }
                        }
                    }
                }
                let mut bv: BVec<u32> = BVec::new_in(&bump);
                let mut sv: Vec<u32> = Vec::new();
                let mut k = 0;
                bv.extend((0..usize::MAX).map(|i| i as u32).take_while(|_| { k += 1; k <= 4 }));
                let mut k = 0;
                sv.extend((0..usize::MAX).map(|i| i as u32).take_while(|_| { k += 1; k <= 4 }));
                bv.extend((0..1000u32).filter(|x| x % 333 == 0));
                sv.extend((0..1000u32).filter(|x| x % 333 == 0));
                cases += 1;
                if bv[..] != sv[..] { bad += 1; println!("Q drain_adaptors extend_loose_hints | {:?} | {:?}", &bv[..], sv); }
            }
            // C16: an element whose destructor panics is among the items an adaptor skips (nth, skip,
            // step_by over IntoIter and Drain): after the unwinding, and after the iterator and the vector
            // are dropped, nothing has been dropped twice, and the drops are std's
            {
                struct P(u32, Rc<RefCell<Vec<u32>>>, bool);
                impl Drop for P {
                    fn drop(&mut self) {
                        self.1.borrow_mut().push(self.0);
                        if self.2 && !std::thread::panicking() { panic!("boom drop"); }
                    }
                }
                macro_rules! pscenario {
                    ($mk:expr, $n:expr, $j:expr, $k:expr, $how:expr) => {{
                        let led = Rc::new(RefCell::new(Vec::<u32>::new()));
                        let mut v = $mk;
                        for i in 0..$n as u32 { v.push(P(i, led.clone(), i as usize == $j)); }
                        let k = $k;
                        let mut outcome = Vec::new();
                        match $how {
                            0 => { let mut it = v.into_iter();
                                   outcome.push(catch_unwind(AssertUnwindSafe(|| it.nth(k).map(|p| { let id = p.0; std::mem::forget(p); id }))).ok().flatten().unwrap_or(77));
                                   outcome.push(catch_unwind(AssertUnwindSafe(|| it.next().map(|p| { let id = p.0; std::mem::forget(p); id }))).ok().flatten().unwrap_or(77));
                                   let _ = catch_unwind(AssertUnwindSafe(move || drop(it))); }
                            1 => { let it = v.into_iter();
                                   let _ = catch_unwind(AssertUnwindSafe(move || { let mut s = it.skip(k).step_by(2); let x = s.next(); std::mem::forget(x); drop(s); })); }
                            _ => { { let mut d = v.drain(..);
                                     outcome.push(catch_unwind(AssertUnwindSafe(|| d.nth(k).map(|p| { let id = p.0; std::mem::forget(p); id }))).ok().flatten().unwrap_or(77));
                                     let _ = catch_unwind(AssertUnwindSafe(move || drop(d))); }
                                   outcome.push(v.len() as u32);
                                   let _ = catch_unwind(AssertUnwindSafe(move || drop(v))); }
                        }
                        let mut all = led.borrow().clone();
                        all.sort();
                        (outcome, all)
                    }};
                }
                for n in [1usize, 3, 6] {
                    for j in 0..n {
                        for k in 0..4usize {
                            for how in 0..3 {
                                let rb = pscenario!(BVec::new_in(&bump), n, j, k, how);
                                let rs = pscenario!(Vec::new(), n, j, k, how);
                                cases += 1;
                                // (which of the skipped items std has dropped by then differs: its IntoIter
                                // drops a skipped run in one go and carries on after a panic; only the
                                // property's own demands are checked: nothing twice, nothing that was handed
                                // out is dropped)
                                let twice = rb.1.windows(2).any(|w| w[0] == w[1]) || rs.1.windows(2).any(|w| w[0] == w[1]);
                                let handed_out_dropped = how != 2 && rb.0.iter().any(|x| *x != 77 && rb.1.contains(x));
                                if twice || handed_out_dropped {
                                    bad += 1;
                                    if bad <= 3 { println!("Q drain_adaptors panicking_drop n={} boom={} k={} how={} | {:?} dropped={:?} | {:?} dropped={:?}", n, j, k, how, rb.0, rb.1, rs.0, rs.1); }
                                }
                            }
                        }
                    }
                }
            }
            // zero-sized elements that are over-aligned: consumed from the front, from the back, then
            // dropped; every element is dropped exactly once and nothing misbehaves on the way
            {
                use std::sync::atomic::{AtomicUsize, Ordering};
                static ZDROPS: AtomicUsize = AtomicUsize::new(0);
                #[repr(align(8))]
                struct Za;
                impl Drop for Za { fn drop(&mut self) { ZDROPS.fetch_add(1, Ordering::SeqCst); } }
                for n in [0usize, 1, 3, 8, 9] {
                    for f in 0..4usize {
                        for b in 0..3usize {
                            for how in 0..3 {
                                ZDROPS.store(0, Ordering::SeqCst);
                                let mut v: BVec<Za> = BVec::new_in(&bump);
                                for _ in 0..n { v.push(Za); }
                                let mut taken = 0usize;
                                match how {
                                    0 => { let mut it = v.into_iter(); for _ in 0..f { if it.next().is_some() { taken += 1; } } for _ in 0..b { if it.next_back().is_some() { taken += 1; } } let _ = it.as_slice().len(); drop(it); }
                                    1 => { { let mut d = v.drain(..); for _ in 0..f { if d.next().is_some() { taken += 1; } } for _ in 0..b { if d.next_back().is_some() { taken += 1; } } } drop(v); }
                                    _ => { v.truncate(f); v.retain(|_| true); let w = v.split_off(f.min(v.len()) / 2); drop(w); drop(v); }
                                }
                                let _ = taken;
                                cases += 1;
                                let d = ZDROPS.load(Ordering::SeqCst);
                                if d != n { bad += 1; if bad <= 3 { println!("Q drain_adaptors overaligned_zst n={} front={} back={} how={} | dropped={} | {}", n, f, b, how, d, n); } }
                            }
                        }
                    }
                }
            }
            // DrainFilter (no stable counterpart in std): yields some items, then is leaked or dropped
            // normally; nothing is dropped twice and nothing taken stays in the vector
            for n in [1usize, 4, 7] {
                for k in 0..4usize {
                    for leak in [false, true] {
                        let led = Rc::new(RefCell::new(Vec::<u32>::new()));
                        let mut v = BVec::new_in(&bump);
                        for i in 0..n as u32 { v.push(D(i, led.clone())); }
                        let mut d = v.drain_filter(|x| x.0 % 2 == 0);
                        let taken: Vec<u32> = d.by_ref().take(k).map(|d| d.0).collect();
                        if leak { std::mem::forget(d); } else { drop(d); }
                        let left: Vec<u32> = v.iter().map(|d| d.0).collect();
                        drop(v);
                        let mut all = led.borrow().clone();
                        all.sort();
                        cases += 1;
                        let twice = all.windows(2).any(|w| w[0] == w[1]);
                        let exposed = taken.iter().any(|x| left.contains(x));
                        let complete = leak || all == (0..n as u32).collect::<Vec<_>>();
                        if twice || exposed || !complete {
                            bad += 1;
                            if bad <= 3 { println!("Q drain_adaptors drain_filter n={} k={} leak={} | taken={:?} left={:?} dropped={:?} | -", n, k, leak, taken, left, all); }
                        }
                    }
                }
            }
            println!("Q drain_adaptors_sweep cases={} | {} | same", cases, if bad == 0 { "same".to_string() } else { format!("{}_cases_differ", bad) });
        }
        // C20: collections of two arenas that meet (append, extend, clone_from, push_str across
        // arenas): each keeps its buffer in the arena it was created in, and growing one never
        // changes the other arena's accounting
        {
            fn inside<const M: usize>(b: &Bump<M>, p: usize, bytes: usize) -> bool {
                bytes == 0 || unsafe { b.iter_allocated_chunks_raw() }.any(|(q, l)| (q as usize) <= p && p + bytes <= q as usize + l)
            }
            let mut bad: Vec<String> = Vec::new();
            for first_cap in [0usize, 1, 8] {
                for other_len in [0usize, 1, 5, 40] {
                    for how in 0..9 {
                        let (a, b) = (Bump::new(), Bump::new());
                        let mut x: BVec<u64> = BVec::with_capacity_in(first_cap, &a);
                        let mut y: BVec<u64> = BVec::new_in(&b);
                        for i in 0..other_len as u64 { y.push(i * 7 + 1); }
                        let want: Vec<u64> = y.iter().copied().collect();
                        match how {
                            0 => x.append(&mut y),
                            1 => x.extend(y.drain(..)),
                            2 => x.extend_from_slice(&y),
                            3 => x.extend_from_slice_copy(&y),
                            // (clone_from is `*self = source.clone()`: the result is a vector of the source's
                            // arena by definition, so it is not part of this check)
                            4 => { for v in y.iter() { x.push(*v); } }
                            6 => { x.splice(.., y.drain(..)); }
                            7 => { x = BVec::from_iter_in(y.drain(..), &a); }
                            8 => { let sl: &[u64] = &y; x.extend_from_slices_copy(&[sl]); }
                            5 => { let mut z = y.clone(); x.append(&mut z); if !inside(&b, z.as_ptr() as usize, z.capacity() * 8) { bad.push(format!("clone_left_arena_b cap={} len={}", first_cap, other_len)); } }
                            _ => unreachable!(),
                        }
                        let tag = format!("how={} cap={} len={}", how, first_cap, other_len);
                        if x.as_slice() != want.as_slice() { bad.push(format!("contents {}", tag)); }
                        if !inside(&a, x.as_ptr() as usize, x.capacity() * 8) { bad.push(format!("x_not_in_a {}", tag)); }
                        if !inside(&b, y.as_ptr() as usize, y.capacity() * 8) { bad.push(format!("y_not_in_b {}", tag)); }
                        // growing x afterwards is A's business only
                        let (ab, bb) = (a.allocated_bytes(), b.allocated_bytes());
                        b.set_allocation_limit(Some(bb));
                        let grown = catch_unwind(AssertUnwindSafe(|| { for i in 0..3000u64 { x.push(i); } })).is_ok();
                        if !grown { bad.push(format!("x_grows_under_b_limit {}", tag)); }
                        if b.allocated_bytes() != bb { bad.push(format!("b_bytes_changed {}", tag)); }
                        if grown && a.allocated_bytes() <= ab && x.capacity() * 8 > ab { bad.push(format!("a_bytes_not_charged {}", tag)); }
                        if !inside(&a, x.as_ptr() as usize, x.capacity() * 8) { bad.push(format!("x_left_a_after_growth {}", tag)); }
                    }
                }
            }
            // strings
            for how in 0..7 {
                let (a, b) = (Bump::new(), Bump::new());
                let mut x = bumpalo::collections::String::new_in(&a);
                let y = bumpalo::collections::String::from_str_in("héllo wörld €", &b);
                match how {
                    0 => x.push_str(&y),
                    1 => x.insert_str(0, &y),
                    2 => x.extend(y.chars()),
                    // extending by owned strings of the other arena, by &str, by +=, collecting into a
                    3 => x.extend(std::iter::once(y.clone())),
                    4 => x.extend([y.as_str()]),
                    5 => x += &y,
                    _ => { x = bumpalo::collections::String::from_iter_in(y.chars(), &a); }
                }
                if x.as_str() != y.as_str() { bad.push(format!("string_contents how={}", how)); }
                if !inside(&a, x.as_ptr() as usize, x.capacity()) { bad.push(format!("string_x_not_in_a how={}", how)); }
                if !inside(&b, y.as_ptr() as usize, y.capacity()) { bad.push(format!("string_y_not_in_b how={}", how)); }
                let (ab, bb) = (a.allocated_bytes(), b.allocated_bytes());
                for _ in 0..200 { x.push_str("grow "); }
                if b.allocated_bytes() != bb || a.allocated_bytes() < ab { bad.push(format!("string_growth_charged_to_b how={}", how)); }
                if !inside(&a, x.as_ptr() as usize, x.capacity()) { bad.push(format!("string_x_left_a_after_growth how={}", how)); }
            }
            println!("I cross_arena_collections | {}", if bad.is_empty() { "ok".to_string() } else { bad.iter().take(4).cloned().collect::<Vec<_>>().join(";") });
        }
        let st: String = "aé€𝄞z".chars().collect();
        let bs: bumpalo::collections::String = "aé€𝄞z".chars().collect_in(&bump);
        println!("Q collect_string | {} | {}", if bs.as_str() == st { "same" } else { bs.as_str() }, st);
    }
    one::<()>();
    one::<u8>();
    one::<[u8; 3]>();
    one::<u64>();
    one::<[u64; 3]>();
    one::<Big>();
    // slices of zero-sized elements whose lengths sum past usize::MAX
    {
        let z: &[()] = unsafe { std::slice::from_raw_parts(std::ptr::NonNull::<()>::dangling().as_ptr(), usize::MAX) };
        let bump = Bump::new();
        let b = catch_unwind(AssertUnwindSafe(|| { let mut v: BVec<()> = BVec::new_in(&bump); v.extend_from_slices_copy(&[z, z]); v.len() }));
        let s = catch_unwind(AssertUnwindSafe(|| { let mut v: Vec<()> = Vec::new(); v.extend_from_slice(z); v.extend_from_slice(z); v.len() }));
        println!("Z extend_from_slices_copy_zst_sum_wraps | {} | {}", match &b { Ok(n) => format!("ok:{}", n), Err(_) => "panic".into() }, match &s { Ok(n) => format!("ok:{}", n), Err(_) => "panic".into() });
        let b = catch_unwind(AssertUnwindSafe(|| { let mut v: BVec<()> = BVec::new_in(&bump); v.extend_from_slice_copy(z); v.extend_from_slice_copy(&[(), ()]); v.len() }));
        let s = catch_unwind(AssertUnwindSafe(|| { let mut v: Vec<()> = Vec::new(); v.extend_from_slice(z); v.extend_from_slice(&[(), ()]); v.len() }));
        println!("Z extend_from_slice_copy_zst_past_max | {} | {}", match &b { Ok(n) => format!("ok:{}", n), Err(_) => "panic".into() }, match &s { Ok(n) => format!("ok:{}", n), Err(_) => "panic".into() });
        let b = catch_unwind(AssertUnwindSafe(|| { let mut v: BVec<Tok> = BVec::new_in(&bump); v.resize(usize::MAX, Tok::new(1)); v.len() }));
        let s = catch_unwind(AssertUnwindSafe(|| { let mut v: Vec<Tok> = Vec::new(); v.resize(usize::MAX, Tok::new(1)); v.len() }));
        println!("Z resize_to_usize_max | {} | {}", match &b { Ok(n) => format!("ok:{}", n), Err(_) => "panic".into() }, match &s { Ok(n) => format!("ok:{}", n), Err(_) => "panic".into() });
        let b = catch_unwind(AssertUnwindSafe(|| { let mut st = bumpalo::collections::String::new_in(&bump); st.push('a'); st.reserve(usize::MAX); st.len() }));
        let s = catch_unwind(AssertUnwindSafe(|| { let mut st = String::new(); st.push('a'); st.reserve(usize::MAX); st.len() }));
        println!("Z string_reserve_usize_max | {} | {}", match &b { Ok(n) => format!("ok:{}", n), Err(_) => "panic".into() }, match &s { Ok(n) => format!("ok:{}", n), Err(_) => "panic".into() });
        let b = catch_unwind(AssertUnwindSafe(|| { let st = bumpalo::collections::String::with_capacity_in(isize::MAX as usize + 1, &bump); st.len() }));
        let s = catch_unwind(AssertUnwindSafe(|| { let st = String::with_capacity(isize::MAX as usize + 1); st.len() }));
        println!("Z string_with_capacity_past_isize_max | {} | {}", match &b { Ok(n) => format!("ok:{}", n), Err(_) => "panic".into() }, match &s { Ok(n) => format!("ok:{}", n), Err(_) => "panic".into() });
        take_drops();
    }
    let _ = class::<()>;
}

fn main() {
    std::panic::set_hook(Box::new(|_| {}));
    let args: Vec<String> = std::env::args().collect();
    match args.get(1).map(|s| s.as_str()) {
        Some("gen") => {
            let seed: u64 = args[2].parse().unwrap();
            let count: u64 = args[3].parse().unwrap();
            let maxops: usize = args.get(4).map(|s| s.parse().unwrap()).unwrap_or(40);
            let first: u64 = args.get(5).map(|s| s.parse().unwrap()).unwrap_or(0);
            if first == 0 {
                grid();
            }
            for hid in first..first + count {
                reset_world_state(1);
                run_program(seed, hid, maxops);
            }
        }
        _ => {
            eprintln!("usage: vec_driver gen <seed> <count> [maxops] [first]");
            std::process::exit(2);
        }
    }
}
