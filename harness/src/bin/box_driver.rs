// box_driver: bumpalo::boxed::Box against std::boxed::Box (the oracle of C17)
// on generated sequences of constructions, conversions and round trips, with
// drop-tracked values, zero-sized values, slices, str and trait objects.
// Every operation is also written as a trace line for the BoxModel checker.
//
//   box_driver gen <seed> <count> [maxops] [first]
use bumpalo::boxed::Box as BBox;
use bumpalo::collections::Vec as BVec;
use bumpalo::Bump;
use bv_harness::rng::Rng;
use bv_harness::track::{self, Kind};
use std::any::Any;
use std::cell::RefCell;
use std::collections::hash_map::DefaultHasher;
use std::convert::TryFrom;
use std::hash::{Hash, Hasher};
use std::io::Write;
use std::panic::{catch_unwind, AssertUnwindSafe};

#[global_allocator]
static GLOBAL: track::Tracker = track::Tracker;

thread_local! {
    static DROPS: RefCell<Vec<u64>> = RefCell::new(Vec::new());
}
fn take_drops() -> Vec<u64> {
    DROPS.with(|d| std::mem::take(&mut *d.borrow_mut()))
}

#[derive(Debug, PartialEq, Eq, PartialOrd, Ord, Hash)]
struct Tok {
    id: u64,
    pad: [u64; 2],
}
impl Tok {
    fn new(id: u64) -> Tok {
        Tok { id, pad: [id ^ 0xAAAA, !id] }
    }
}
impl Drop for Tok {
    fn drop(&mut self) {
        DROPS.with(|d| d.borrow_mut().push(self.id));
    }
}
impl std::fmt::Display for Tok {
    fn fmt(&self, f: &mut std::fmt::Formatter) -> std::fmt::Result {
        write!(f, "tok#{}", self.id)
    }
}
#[derive(Debug, PartialEq, Eq, PartialOrd, Ord, Hash)]
#[repr(align(32))]
struct ZTok;
thread_local! { static ZDROPS: std::cell::Cell<u64> = std::cell::Cell::new(0); }
impl Drop for ZTok {
    fn drop(&mut self) {
        ZDROPS.with(|z| z.set(z.get() + 1));
    }
}

fn show(v: &[u64]) -> String {
    if v.is_empty() { "-".into() } else { v.iter().map(|x| x.to_string()).collect::<Vec<_>>().join(",") }
}
fn hash_of<T: Hash + ?Sized>(t: &T) -> u64 {
    let mut h = DefaultHasher::new();
    t.hash(&mut h);
    h.finish()
}

struct Ctx<'b> {
    bump: &'b Bump,
    out: std::io::StdoutLock<'static>,
    next_id: u64,
}

impl<'b> Ctx<'b> {
    fn line(&mut self, s: String) {
        writeln!(self.out, "{}", s).unwrap();
        self.out.flush().unwrap();
    }
    fn fresh(&mut self) -> u64 {
        self.next_id += 1;
        self.next_id
    }
    /// arena observation around an operation: (allocated bytes, capacity, chunk requests, chunk frees)
    fn arena(&self) -> (usize, usize) {
        (self.bump.allocated_bytes(), self.bump.chunk_capacity())
    }
}

/// one scenario; returns false if something diverged from std
fn scenario(cx: &mut Ctx, rng: &mut Rng) {
    let which = rng.below(12);
    let x = cx.fresh();
    take_drops();
    let before = cx.arena();
    let mark = track::log_len();
    match which {
        0 => {
            // new_in, deref, drop
            let b = track::recorded(|| BBox::new_in(Tok::new(x), cx.bump));
            let s = Box::new(Tok::new(x));
            let same = b.id == s.id && *b == *s && format!("{}", b) == format!("{}", s) && format!("{:?}", b) == format!("{:?}", s) && hash_of(&b) == hash_of(&s);
            take_drops();
            let cap0 = cx.arena();
            drop(b);
            let d = take_drops();
            let cap1 = cx.arena();
            drop(s);
            let ds = take_drops();
            cx.line(format!("O new_drop {} | dropped {} | given - | arena_same {}", x, show(&d), (cap0 == cap1) as u8));
            if !same || d != ds {
                cx.line(format!("X new_drop differs same={} drops={:?} std={:?}", same, d, ds));
            }
        }
        1 => {
            // into_inner
            let b = BBox::new_in(Tok::new(x), cx.bump);
            take_drops();
            let cap0 = cx.arena();
            let v = BBox::into_inner(b);
            let d = take_drops();
            let cap1 = cx.arena();
            let ok = v.id == x && v.pad == [x ^ 0xAAAA, !x];
            std::mem::forget(v);
            cx.line(format!("O into_inner {} | dropped {} | given {} | arena_same {}", x, show(&d), x, (cap0 == cap1) as u8));
            if !ok {
                cx.line("X into_inner returned a different value".to_string());
            }
        }
        2 => {
            // into_raw / from_raw round trip, then drop
            let b = BBox::new_in(Tok::new(x), cx.bump);
            let p = BBox::into_raw(b);
            let d0 = take_drops();
            let b2 = unsafe { BBox::from_raw(p) };
            let ok = b2.id == x;
            let cap0 = cx.arena();
            drop(b2);
            let d = take_drops();
            let cap1 = cx.arena();
            cx.line(format!("O raw_roundtrip {} | dropped {} | given - | arena_same {}", x, show(&d), (cap0 == cap1) as u8));
            if !ok || !d0.is_empty() {
                cx.line(format!("X raw round trip lost the value or dropped early {:?}", d0));
            }
        }
        3 => {
            // leak: never dropped
            let b = BBox::new_in(Tok::new(x), cx.bump);
            let cap0 = cx.arena();
            let r: &mut Tok = BBox::leak(b);
            let ok = r.id == x;
            let d = take_drops();
            let cap1 = cx.arena();
            cx.line(format!("O leak {} | dropped {} | given - | arena_same {}", x, show(&d), (cap0 == cap1) as u8));
            if !ok {
                cx.line("X leak returned a different value".to_string());
            }
        }
        4 => {
            // pin_in
            let b = BBox::pin_in(Tok::new(x), cx.bump);
            let ok = b.id == x;
            let cap0 = cx.arena();
            drop(b);
            let d = take_drops();
            let cap1 = cx.arena();
            cx.line(format!("O pin_drop {} | dropped {} | given - | arena_same {}", x, show(&d), (cap0 == cap1) as u8));
            if !ok {
                cx.line("X pin_in holds a different value".to_string());
            }
        }
        5 => {
            // dyn Any downcast: matching and non-matching target
            let matching = rng.chance(1, 2);
            // (both flavours of the payload type: dyn Any and dyn Any + Send have separate downcast impls)
            let send_flavour = rng.chance(1, 2);
            let cap0;
            let (okv, tag): (bool, u8) = if send_flavour {
                let b: BBox<dyn Any + Send> = unsafe { let bb = BBox::new_in(Tok::new(x), cx.bump); BBox::from_raw(BBox::into_raw(bb) as *mut (dyn Any + Send)) };
                cap0 = cx.arena();
                if matching {
                    match b.downcast::<Tok>() { Ok(t) => { let ok = t.id == x; drop(t); (ok, 1) } Err(e) => { drop(e); (false, 1) } }
                } else {
                    match b.downcast::<u64>() { Ok(t) => { drop(t); (false, 0) } Err(e) => { let ok = e.downcast_ref::<Tok>().map(|t| t.id) == Some(x) && take_drops().is_empty(); drop(e); (ok, 0) } }
                }
            } else {
                let b: BBox<dyn Any> = unsafe { let bb = BBox::new_in(Tok::new(x), cx.bump); BBox::from_raw(BBox::into_raw(bb) as *mut dyn Any) };
                cap0 = cx.arena();
                if matching {
                    match b.downcast::<Tok>() { Ok(t) => { let ok = t.id == x; drop(t); (ok, 1) } Err(e) => { drop(e); (false, 1) } }
                } else {
                    match b.downcast::<u64>() { Ok(t) => { drop(t); (false, 0) } Err(e) => { let ok = e.downcast_ref::<Tok>().map(|t| t.id) == Some(x) && take_drops().is_empty(); drop(e); (ok, 0) } }
                }
            };
            let d = take_drops();
            let cap1 = cx.arena();
            cx.line(format!("O downcast {} {} | dropped {} | given - | arena_same {}", x, tag, show(&d), (cap0 == cap1) as u8));
            if !okv {
                cx.line(format!("X downcast matching={} wrong outcome", matching));
            }
        }
        6 | 7 => {
            // Vec -> boxed slice -> (array) -> slice; order preserved; drop drops each once
            let n = if which == 6 { 3usize } else { rng.usize_below(6) };
            let ids: Vec<u64> = (0..n).map(|_| cx.fresh()).collect();
            let mut v = BVec::new_in(cx.bump);
            for &i in &ids { v.push(Tok::new(i)); }
            let bs: BBox<[Tok]> = if rng.chance(1, 2) { v.into_boxed_slice() } else { BBox::from(v) };
            let order_ok = bs.iter().map(|t| t.id).eq(ids.iter().copied());
            take_drops();
            let cap0 = cx.arena();
            let mut extra_ok = true;
            let d;
            if n == 3 {
                match BBox::<[Tok; 3]>::try_from(bs) {
                    Ok(arr) => {
                        extra_ok &= arr.iter().map(|t| t.id).eq(ids.iter().copied());
                        let back: BBox<[Tok]> = BBox::from(arr);
                        extra_ok &= back.iter().map(|t| t.id).eq(ids.iter().copied());
                        extra_ok &= take_drops().is_empty();
                        drop(back);
                    }
                    Err(b) => { extra_ok = false; drop(b); }
                }
                d = take_drops();
            } else {
                match BBox::<[Tok; 3]>::try_from(bs) {
                    Ok(arr) => { extra_ok = false; drop(arr); }
                    Err(b) => { extra_ok &= b.iter().map(|t| t.id).eq(ids.iter().copied()); extra_ok &= take_drops().is_empty(); drop(b); }
                }
                d = take_drops();
            }
            let cap1 = cx.arena();
            cx.line(format!("O slice_drop {} {} | dropped {} | given - | arena_same {}", show(&ids), n, show(&d), (cap0 == cap1) as u8));
            if !order_ok || !extra_ok {
                cx.line(format!("X slice conversions order_ok={} extra_ok={}", order_ok, extra_ok));
            }
        }
        8 => {
            // from_iter_in
            let n = rng.usize_below(5);
            let ids: Vec<u64> = (0..n).map(|_| cx.fresh()).collect();
            let b: BBox<[Tok]> = BBox::from_iter_in(ids.iter().map(|&i| Tok::new(i)), cx.bump);
            let ok = b.iter().map(|t| t.id).eq(ids.iter().copied());
            take_drops();
            let cap0 = cx.arena();
            drop(b);
            let d = take_drops();
            let cap1 = cx.arena();
            cx.line(format!("O slice_drop {} {} | dropped {} | given - | arena_same {}", show(&ids), n, show(&d), (cap0 == cap1) as u8));
            if !ok {
                cx.line("X from_iter_in order".to_string());
            }
        }
        9 => {
            // zero-sized value: destructor runs exactly once; no memory behaviour
            ZDROPS.with(|z| z.set(0));
            let b = BBox::new_in(ZTok, cx.bump);
            let b2 = unsafe { BBox::from_raw(BBox::into_raw(b)) };
            let cap0 = cx.arena();
            drop(b2);
            let n = ZDROPS.with(|z| z.get());
            let cap1 = cx.arena();
            cx.line(format!("O zst_drop {} | dropped_count {} | given - | arena_same {}", x, n, (cap0 == cap1) as u8));
            let b3 = BBox::new_in(ZTok, cx.bump);
            ZDROPS.with(|z| z.set(0));
            let v = BBox::into_inner(b3);
            let n2 = ZDROPS.with(|z| z.get());
            std::mem::forget(v);
            if n != 1 || n2 != 0 {
                cx.line(format!("X zst drops {} {}", n, n2));
            }
            // slices of zero-sized values and their conversion to arrays: accepted only for the exact
            // length, and every value dropped exactly once either way
            for len in [0usize, 1, 3, 4] {
                for want in [0usize, 1, 3, 5] {
                    let bs: BBox<[ZTok]> = BBox::from_iter_in((0..len).map(|_| ZTok), cx.bump);
                    ZDROPS.with(|z| z.set(0));
                    // an accepted array goes back to a slice: same length, nothing dropped on the way
                    macro_rules! conv { ($n:literal) => {
                        match BBox::<[ZTok; $n]>::try_from(bs) {
                            Ok(a) => {
                                let back: BBox<[ZTok]> = BBox::from(a);
                                let (l, early) = (back.len(), ZDROPS.with(|z| z.get()));
                                drop(back);
                                if l != $n || early != 0 {
                                    cx.line(format!("X zst array of {} back to slice: len={} dropped_early={}", $n, l, early));
                                }
                                true
                            }
                            Err(b) => {
                                let (l, early) = (b.len(), ZDROPS.with(|z| z.get()));
                                drop(b);
                                if l != len || early != 0 {
                                    cx.line(format!("X zst slice of {} refused as array of {}: returned len={} dropped_early={}", len, $n, l, early));
                                }
                                false
                            }
                        }
                    } }
                    let accepted = match want { 0 => conv!(0), 1 => conv!(1), 3 => conv!(3), _ => conv!(5) };
                    let dropped = ZDROPS.with(|z| z.get());
                    if accepted != (len == want) || dropped as usize != len {
                        cx.line(format!("X zst slice of {} to array of {}: accepted={} dropped={}", len, want, accepted, dropped));
                    }
                }
            }
        }
        10 => {
            // trait forwarding: comparisons, hashing, iteration, Display of unsized str
            let a = cx.fresh();
            let (b1, b2) = (BBox::new_in(Tok::new(x), cx.bump), BBox::new_in(Tok::new(a), cx.bump));
            let (s1, s2) = (Box::new(Tok::new(x)), Box::new(Tok::new(a)));
            let mut same = (b1 == b2) == (s1 == s2) && (b1 != b2) == (s1 != s2) && (b1 < b2) == (s1 < s2) && (b1 <= b2) == (s1 <= s2)
                && (b1 > b2) == (s1 > s2) && (b1 >= b2) == (s1 >= s2) && b1.cmp(&b2) == s1.cmp(&s2) && b1.partial_cmp(&b2) == s1.partial_cmp(&s2)
                && hash_of(&b1) == hash_of(&s1);
            // payloads that are only partially ordered (NaN inside): every operator must forward to T's own
            let fs = [0.0f64, 1.0, -1.0, f64::NAN, f64::INFINITY];
            let (f1, f2) = (fs[(x % 5) as usize], fs[(a % 5) as usize]);
            {
                let (p1, p2) = (BBox::new_in(f1, cx.bump), BBox::new_in(f2, cx.bump));
                let (q1, q2) = (Box::new(f1), Box::new(f2));
                same = same && (p1 == p2) == (q1 == q2) && (p1 != p2) == (q1 != q2) && (p1 < p2) == (q1 < q2) && (p1 <= p2) == (q1 <= q2)
                    && (p1 > p2) == (q1 > q2) && (p1 >= p2) == (q1 >= q2) && p1.partial_cmp(&p2) == q1.partial_cmp(&q2);
                let (o1, o2) = (BBox::new_in([Some(f1), None], cx.bump), BBox::new_in([Some(f2), Some(f1)], cx.bump));
                let (r1, r2) = (Box::new([Some(f1), None]), Box::new([Some(f2), Some(f1)]));
                same = same && (o1 == o2) == (r1 == r2) && (o1 < o2) == (r1 < r2) && (o1 <= o2) == (r1 <= r2)
                    && (o1 > o2) == (r1 > r2) && (o1 >= o2) == (r1 >= r2) && o1.partial_cmp(&o2) == r1.partial_cmp(&r2);
                let (t1, t2): (BBox<str>, BBox<str>) = unsafe { (BBox::from_raw(cx.bump.alloc_str(if x % 2 == 0 { "ab" } else { "b" }) as *mut str), BBox::from_raw(cx.bump.alloc_str(if a % 3 == 0 { "ab" } else { "a" }) as *mut str)) };
                let (u1, u2): (Box<str>, Box<str>) = ((if x % 2 == 0 { "ab" } else { "b" }).into(), (if a % 3 == 0 { "ab" } else { "a" }).into());
                same = same && (t1 == t2) == (u1 == u2) && (t1 <= t2) == (u1 <= u2) && (t1 >= t2) == (u1 >= u2) && t1.cmp(&t2) == u1.cmp(&u2)
                    && format!("{}|{:?}", &*t1, &*t1) == format!("{}|{:?}", &*u1, &*u1) && format!("{}", t1) == format!("{}", u1) && format!("{:?}", t1) == format!("{:?}", u1);
            }
            // a box compared with itself, and two boxes at one address (zero-sized payloads), still compare
            // as their values do: non-reflexive payloads (NaN, a type whose eq is always false)
            {
                struct Never;
                impl PartialEq for Never { fn eq(&self, _: &Never) -> bool { false } }
                impl PartialOrd for Never { fn partial_cmp(&self, _: &Never) -> Option<std::cmp::Ordering> { None } }
                let (p1, q1) = (BBox::new_in(f1, cx.bump), Box::new(f1));
                #[allow(clippy::eq_op)]
                {
                    same = same && (p1 == p1) == (q1 == q1) && (p1 != p1) == (q1 != q1) && (p1 <= p1) == (q1 <= q1) && (p1 >= p1) == (q1 >= q1)
                        && (p1 < p1) == (q1 < q1) && p1.partial_cmp(&p1) == q1.partial_cmp(&q1);
                    let (r1, r2) = (&p1, &p1);
                    same = same && (r1 == r2) == (f1 == f1) && (r1 != r2) == (f1 != f1);
                }
                let ps: BBox<[f64]> = BBox::from_iter_in([f1, f2].iter().copied(), cx.bump);
                let qs: Box<[f64]> = vec![f1, f2].into_boxed_slice();
                same = same && (ps == ps) == (qs == qs) && (ps != ps) == (qs != qs) && ps.partial_cmp(&ps) == qs.partial_cmp(&qs);
                let (z1, z2) = (BBox::new_in(Never, cx.bump), BBox::new_in(Never, cx.bump));
                let (y1, y2) = (Box::new(Never), Box::new(Never));
                same = same && (z1 == z2) == (y1 == y2) && (z1 != z2) == (y1 != y2) && (z1 == z1) == (y1 == y1) && (z1 <= z2) == (y1 <= y2)
                    && z1.partial_cmp(&z2) == y1.partial_cmp(&y2);
            }
            // formatting forwards the caller's width, fill, alignment, precision, sign and '#' flags
            {
                let (p1, q1) = (BBox::new_in(f1, cx.bump), Box::new(f1));
                let (pi, qi) = (BBox::new_in(x as i64 - 40, cx.bump), Box::new(x as i64 - 40));
                let ts = if x % 2 == 0 { "ab" } else { "b" };
                let t1: BBox<str> = unsafe { BBox::from_raw(cx.bump.alloc_str(ts) as *mut str) };
                let u1: Box<str> = ts.into();
                let (po, qo) = (BBox::new_in((x, Some(ts)), cx.bump), Box::new((x, Some(ts))));
                same = same
                    && format!("{:.2}|{:+}|{:>9.1}|{:*<8}|{:e}|{:?}|{:8.3?}", p1, p1, p1, p1, *p1, p1, p1) == format!("{:.2}|{:+}|{:>9.1}|{:*<8}|{:e}|{:?}|{:8.3?}", q1, q1, q1, q1, *q1, q1, q1)
                    && format!("{:+05}|{:^7}|{:<4}|{:#x?}|{:04}|{:#?}", pi, pi, pi, pi, pi, pi) == format!("{:+05}|{:^7}|{:<4}|{:#x?}|{:04}|{:#?}", qi, qi, qi, qi, qi, qi)
                    && format!("{:>5}|{:-<4}|{:.1}|{:^6?}|{:#?}", t1, t1, t1, t1, t1) == format!("{:>5}|{:-<4}|{:.1}|{:^6?}|{:#?}", u1, u1, u1, u1, u1)
                    && format!("{:?}|{:#?}", po, po) == format!("{:?}|{:#?}", qo, qo)
                    && format!("{:p}", p1) == format!("{:p}", &*p1 as *const f64);
                // Borrow / AsRef / Hasher forward to the payload
                let br: &f64 = std::borrow::Borrow::borrow(&p1);
                let ar: &f64 = p1.as_ref();
                same = same && br.to_bits() == f1.to_bits() && ar.to_bits() == f1.to_bits();
                let mut bh = BBox::new_in(std::collections::hash_map::DefaultHasher::new(), cx.bump);
                let mut sh = Box::new(std::collections::hash_map::DefaultHasher::new());
                std::hash::Hasher::write_u64(&mut bh, x); std::hash::Hasher::write(&mut bh, ts.as_bytes()); std::hash::Hasher::write_i64(&mut bh, -(a as i64));
                std::hash::Hasher::write_u64(&mut sh, x); std::hash::Hasher::write(&mut sh, ts.as_bytes()); std::hash::Hasher::write_i64(&mut sh, -(a as i64));
                same = same && std::hash::Hasher::finish(&bh) == std::hash::Hasher::finish(&sh);
                // a hasher that treats every integer method in its own way (it records which method was
                // called with what): a boxed one must reach the very same methods
                #[derive(Default)]
                struct Log(Vec<String>);
                impl Hasher for Log {
                    fn finish(&self) -> u64 { let mut d = DefaultHasher::new(); for e in &self.0 { d.write(e.as_bytes()); } d.finish() }
                    fn write(&mut self, b: &[u8]) { self.0.push(format!("bytes:{:?}", b)); }
                    fn write_u8(&mut self, i: u8) { self.0.push(format!("u8:{}", i)); }
                    fn write_u16(&mut self, i: u16) { self.0.push(format!("u16:{}", i)); }
                    fn write_u32(&mut self, i: u32) { self.0.push(format!("u32:{}", i)); }
                    fn write_u64(&mut self, i: u64) { self.0.push(format!("u64:{}", i)); }
                    fn write_u128(&mut self, i: u128) { self.0.push(format!("u128:{}", i)); }
                    fn write_usize(&mut self, i: usize) { self.0.push(format!("usize:{}", i)); }
                    fn write_i8(&mut self, i: i8) { self.0.push(format!("i8:{}", i)); }
                    fn write_i16(&mut self, i: i16) { self.0.push(format!("i16:{}", i)); }
                    fn write_i32(&mut self, i: i32) { self.0.push(format!("i32:{}", i)); }
                    fn write_i64(&mut self, i: i64) { self.0.push(format!("i64:{}", i)); }
                    fn write_i128(&mut self, i: i128) { self.0.push(format!("i128:{}", i)); }
                    fn write_isize(&mut self, i: isize) { self.0.push(format!("isize:{}", i)); }
                }
                fn feed<H: Hasher>(h: &mut H, x: u64) {
                    (x as u8).hash(h); (x as u16).hash(h); (x as u32).hash(h); x.hash(h); (x as u128).hash(h); (x as usize).hash(h);
                    (x as i8).hash(h); (x as i16).hash(h); (x as i32).hash(h); (x as i64).hash(h); (x as i128).hash(h); (x as isize).hash(h);
                    (x % 2 == 0).hash(h); 'é'.hash(h); "text".hash(h); [x, x + 1].hash(h); Some(x).hash(h); (x, "t").hash(h);
                    h.write(&[1, 2, 3]);
                }
                let mut plain = Log::default();
                feed(&mut plain, x);
                let mut bl = BBox::new_in(Log::default(), cx.bump);
                feed(&mut bl, x);
                let mut sl = Box::new(Log::default());
                feed(&mut sl, x);
                let mut dl: BBox<dyn Hasher> = unsafe { let b = BBox::new_in(Log::default(), cx.bump); let raw = BBox::into_raw(b); BBox::from_raw(raw as *mut dyn Hasher) };
                feed(&mut dl, x);
                same = same && bl.0 == plain.0 && sl.0 == plain.0 && bl.finish() == plain.finish() && dl.finish() == plain.finish();
            }
            let it: BBox<std::ops::Range<u32>> = BBox::new_in(0..5u32, cx.bump);
            let its: Box<std::ops::Range<u32>> = Box::new(0..5u32);
            let mut same_it = it.collect::<Vec<_>>() == its.collect::<Vec<_>>();
            // every Iterator / DoubleEndedIterator / ExactSizeIterator method forwards, also past the end
            for k in [0usize, 2, 4, 5, 7, (x % 9) as usize] {
                let mut bi: BBox<std::ops::Range<u32>> = BBox::new_in(0..5u32, cx.bump);
                let mut si: Box<std::ops::Range<u32>> = Box::new(0..5u32);
                same_it = same_it && bi.size_hint() == si.size_hint() && bi.len() == si.len();
                same_it = same_it && bi.nth(k) == si.nth(k) && bi.size_hint() == si.size_hint() && bi.next() == si.next() && bi.next_back() == si.next_back();
                let mut bj: BBox<std::ops::Range<u32>> = BBox::new_in(0..5u32, cx.bump);
                let mut sj: Box<std::ops::Range<u32>> = Box::new(0..5u32);
                same_it = same_it && bj.nth_back(k) == sj.nth_back(k) && bj.next() == sj.next() && bj.len() == sj.len();
                let bf: BBox<std::iter::Filter<std::ops::Range<u32>, fn(&u32) -> bool>> = BBox::new_in((0..9u32).filter((|v| v % 2 == 0) as fn(&u32) -> bool), cx.bump);
                let sf: Box<std::iter::Filter<std::ops::Range<u32>, fn(&u32) -> bool>> = Box::new((0..9u32).filter((|v| v % 2 == 0) as fn(&u32) -> bool));
                let (mut bf, mut sf) = (bf, sf);
                same_it = same_it && bf.size_hint() == sf.size_hint() && bf.nth(k) == sf.nth(k) && bf.next() == sf.next() && bf.last() == sf.last();
                let bc: BBox<std::ops::Range<u32>> = BBox::new_in(0..(k as u32), cx.bump);
                let sc: Box<std::ops::Range<u32>> = Box::new(0..(k as u32));
                same_it = same_it && bc.count() == sc.count();
            }
            // a boxed iterator that is NOT fused (it yields again after a None): fusing the box, or using
            // it through adaptors, gives what fusing the value gives
            {
                #[derive(Clone)]
                struct Flaky(u32);
                impl Iterator for Flaky {
                    type Item = u32;
                    fn next(&mut self) -> Option<u32> { self.0 += 1; if self.0 % 3 == 0 { None } else { Some(self.0) } }
                }
                let start = (x % 5) as u32;
                let plain: Vec<Option<u32>> = { let mut f = Flaky(start).fuse(); (0..8).map(|_| f.next()).collect() };
                let boxed: Vec<Option<u32>> = { let mut f = BBox::new_in(Flaky(start), cx.bump).fuse(); (0..8).map(|_| f.next()).collect() };
                let stdb: Vec<Option<u32>> = { let mut f = Box::new(Flaky(start)).fuse(); (0..8).map(|_| f.next()).collect() };
                let dynb: Vec<Option<u32>> = {
                    let b: BBox<dyn Iterator<Item = u32>> = unsafe { let b = BBox::new_in(Flaky(start), cx.bump); BBox::from_raw(BBox::into_raw(b) as *mut dyn Iterator<Item = u32>) };
                    let mut f = b.fuse(); (0..8).map(|_| f.next()).collect() };
                let unfused_b: Vec<Option<u32>> = { let mut f = BBox::new_in(Flaky(start), cx.bump); (0..8).map(|_| f.next()).collect() };
                let unfused_p: Vec<Option<u32>> = { let mut f = Flaky(start); (0..8).map(|_| f.next()).collect() };
                let chained: Vec<u32> = BBox::new_in(Flaky(start), cx.bump).chain(5000..5002).take(6).collect();
                let chained_p: Vec<u32> = Flaky(start).chain(5000..5002).take(6).collect();
                same_it = same_it && plain == boxed && plain == stdb && plain == dynb && unfused_b == unfused_p && chained == chained_p;
            }
            // Future: a boxed future is polled as the future itself is (same Pending/Ready sequence, same
            // number of polls reaching it); Default: the empty boxed slice and the empty boxed str
            {
                use std::future::Future;
                use std::pin::Pin;
                use std::task::{Context, Poll, RawWaker, RawWakerVTable, Waker};
                struct Countdown { left: u32, polls: u32, out: u64 }
                impl Future for Countdown {
                    type Output = (u64, u32);
                    fn poll(mut self: Pin<&mut Self>, _: &mut Context<'_>) -> Poll<(u64, u32)> {
                        self.polls += 1;
                        if self.left == 0 { Poll::Ready((self.out, self.polls)) } else { self.left -= 1; Poll::Pending }
                    }
                }
                fn noop_raw() -> RawWaker {
                    fn no(_: *const ()) {}
                    fn cl(_: *const ()) -> RawWaker { noop_raw() }
                    static VT: RawWakerVTable = RawWakerVTable::new(cl, no, no, no);
                    RawWaker::new(std::ptr::null(), &VT)
                }
                let waker = unsafe { Waker::from_raw(noop_raw()) };
                let mut cxw = Context::from_waker(&waker);
                let n = (x % 4) as u32;
                let mut plain = Countdown { left: n, polls: 0, out: x };
                let mut bf = BBox::new_in(Countdown { left: n, polls: 0, out: x }, cx.bump);
                let mut sf = Box::new(Countdown { left: n, polls: 0, out: x });
                for _ in 0..=n {
                    let p0 = Pin::new(&mut plain).poll(&mut cxw);
                    let p1 = Pin::new(&mut bf).poll(&mut cxw);
                    let p2 = Pin::new(&mut sf).poll(&mut cxw);
                    same = same && p0 == p1 && p0 == p2;
                }
                same = same && bf.polls == plain.polls;
                let e: BBox<[Tok]> = Default::default();
                let es: BBox<str> = Default::default();
                same = same && e.len() == 0 && es.len() == 0 && &*es == "";
                drop(e);
                drop(es);
            }
            take_drops();
            drop((b1, b2));
            let d = take_drops();
            drop((s1, s2));
            let ds = take_drops();
            cx.line(format!("O new_drop2 {} {} | dropped {} | given - | arena_same 1", x, a, show(&d)));
            if !same || !same_it || d != ds {
                cx.line(format!("X forwarding same={} iter={} drops {:?} vs {:?}", same, same_it, d, ds));
            }
        }
        _ => {
            // a panicking destructor inside a boxed slice: the others are still dropped once
            let b = BBox::new_in(Tok::new(x), cx.bump);
            let cap0 = cx.arena();
            let r = catch_unwind(AssertUnwindSafe(|| drop(b)));
            let d = take_drops();
            let cap1 = cx.arena();
            cx.line(format!("O new_drop {} | dropped {} | given - | arena_same {}", x, show(&d), (cap0 == cap1) as u8));
            if r.is_err() {
                cx.line("X drop panicked".to_string());
            }
        }
    }
    // Box operations never give memory back to the global allocator and never ask it for anything
    // beyond what the arena's own growth needs
    let evs = track::events(mark, track::log_len());
    if evs.iter().any(|e| e.kind == Kind::Dealloc) {
        cx.line("X a Box operation released arena memory to the global allocator".to_string());
    }
    let _ = before;
}

fn main() {
    std::panic::set_hook(std::boxed::Box::new(|_| {}));
    let args: Vec<String> = std::env::args().collect();
    match args.get(1).map(|s| s.as_str()) {
        Some("gen") => {
            let seed: u64 = args[2].parse().unwrap();
            let count: u64 = args[3].parse().unwrap();
            let maxops: usize = args.get(4).map(|s| s.parse().unwrap()).unwrap_or(30);
            let first: u64 = args.get(5).map(|s| s.parse().unwrap()).unwrap_or(0);
            for hid in first..first + count {
                let mut rng = Rng::new(seed ^ hid.wrapping_mul(0x9E3779B97F4A7C15) ^ 0xB0C5);
                let bump = Bump::new();
                let out: std::io::StdoutLock<'static> = std::io::stdout().lock();
                let mut cx = Ctx { bump: &bump, out, next_id: hid * 1000 };
                let mode = if cfg!(debug_assertions) { "debug" } else { "release" };
                cx.line(format!("H id={} seed={} mode={}", hid, seed, mode));
                let n = 3 + rng.usize_below(maxops.max(4) - 3);
                for _ in 0..n {
                    scenario(&mut cx, &mut rng);
                }
                cx.line("E".to_string());
            }
        }
        _ => {
            eprintln!("usage: box_driver gen <seed> <count> [maxops] [first]");
            std::process::exit(2);
        }
    }
}
