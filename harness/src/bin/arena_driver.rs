// arena_driver: drives the real `bumpalo::Bump` (built from /repo's working
// tree with `--cfg bumpalo_verif`) through generated operation histories and
// writes one self-contained trace per history.  See DESIGN.md §3.1/§11.
//
//   arena_driver gen   <seed> <count> [maxops]     random histories
//   arena_driver consts                            the crate's constants
//
// Every random choice derives from the seed; traces go to stdout, one line
// per operation, flushed line by line (a hang or crash leaves the `B` line of
// the operation that did not come back).

use allocator_api2::alloc::Allocator;
use bumpalo::Bump;
use bv_harness::rng::Rng;
use bv_harness::track::{self, Kind};
use std::alloc::Layout;
use std::cell::RefCell;
use std::io::Write;
use std::panic::{catch_unwind, AssertUnwindSafe};
use std::ptr::NonNull;

#[global_allocator]
static GLOBAL: track::Tracker = track::Tracker;

thread_local! {
    static STORES: RefCell<Vec<usize>> = RefCell::new(Vec::with_capacity(64));
}
fn on_store(footer: usize) {
    track::paused(|| STORES.with(|s| s.borrow_mut().push(footer)));
}

#[derive(Clone)]
struct Blk {
    addr: usize,
    size: usize,
    align: usize,
    exp: Vec<u8>,
    live: bool,
}

#[derive(Debug, Clone)]
enum Res {
    Ok(usize),
    Unit,
    Err,
    Entered(usize),
    Panic(String),
}
impl Res {
    fn show(&self) -> String {
        match self {
            Res::Ok(a) => format!("ok:{}", a),
            Res::Unit => "unit".into(),
            Res::Err => "err".into(),
            Res::Entered(p) => format!("entered:{}", p),
            Res::Panic(k) => format!("panic:{}", k),
        }
    }
}

fn panic_kind(e: Box<dyn std::any::Any + Send>) -> String {
    let msg = if let Some(s) = e.downcast_ref::<&str>() {
        s.to_string()
    } else if let Some(s) = e.downcast_ref::<String>() {
        s.clone()
    } else {
        "?".to_string()
    };
    if msg.contains("out of memory") {
        "oom".into()
    } else if msg.contains("MIN_ALIGN") {
        "minalign".into()
    } else {
        let m: String = msg
            .chars()
            .take(60)
            .map(|c| if c.is_ascii_alphanumeric() { c } else { '_' })
            .collect();
        format!("other_{}", m)
    }
}

const HUGE: usize = 1 << 24; // blocks larger than this are never touched

struct Drv<const M: usize> {
    bump: Option<Bump<M>>,
    blks: Vec<Blk>,
    rng: Rng,
    out: std::io::Stdout,
    log_mark: usize,
    nops: usize,
    // pending try_with frames: how many are open (the model keeps the details)
    content_checks: usize,
    // regression scenarios: when set, the next try_with / setlimit take these instead of random choices
    force_tw: Option<(u64, bool, bool)>,
    force_limit: Option<Option<usize>>,
    // C10, byte-exact clause: when non-zero every allocation of this history has this alignment
    // and a size that is a multiple of it (and nothing is ever given back individually)
    uniform: usize,
}

// result of an allocation flavour: address, layout, expected bytes
type AllocOut = Result<(usize, usize, usize, Vec<u8>), Res>;

fn pattern(rng: &mut Rng, n: usize) -> Vec<u8> {
    let mut v = Vec::with_capacity(n);
    let mut x = rng.next();
    for i in 0..n {
        if i % 8 == 0 {
            x = rng.next();
        }
        v.push((x >> ((i % 8) * 8)) as u8);
    }
    v
}

unsafe fn write_bytes(addr: usize, bytes: &[u8]) {
    std::ptr::copy_nonoverlapping(bytes.as_ptr(), addr as *mut u8, bytes.len());
}
unsafe fn read_bytes(addr: usize, n: usize) -> Vec<u8> {
    std::slice::from_raw_parts(addr as *const u8, n).to_vec()
}

#[derive(Clone, Copy)]
#[repr(align(32))]
struct A32([u8; 32]);
#[derive(Clone, Copy, Default)]
#[repr(align(64))]
struct Z64;

thread_local! {
    static EDROPS: std::cell::Cell<u32> = std::cell::Cell::new(0);
}
/// an error value with a destructor (C11: delivered exactly once)
struct ETok {
    id: u64,
    pad: [u64; 3],
}
impl Drop for ETok {
    fn drop(&mut self) {
        EDROPS.with(|d| d.set(d.get() + 1));
    }
}

/// a value type without padding whose bytes we can predict
trait Pat: Copy + 'static {
    fn from_bytes(b: &[u8]) -> Self;
}
macro_rules! pat_int {
    ($($t:ty),*) => {$(
        impl Pat for $t {
            fn from_bytes(b: &[u8]) -> Self {
                let mut a = [0u8; std::mem::size_of::<$t>()];
                a.copy_from_slice(&b[..std::mem::size_of::<$t>()]);
                <$t>::from_ne_bytes(a)
            }
        }
    )*};
}
pat_int!(u8, u16, u32, u64, u128);
impl<const N: usize> Pat for [u8; N] {
    fn from_bytes(b: &[u8]) -> Self {
        let mut a = [0u8; N];
        a.copy_from_slice(&b[..N]);
        a
    }
}
impl Pat for [u64; 5] {
    fn from_bytes(b: &[u8]) -> Self {
        let mut a = [0u64; 5];
        for i in 0..5 {
            a[i] = u64::from_bytes(&b[i * 8..]);
        }
        a
    }
}
impl Pat for A32 {
    fn from_bytes(b: &[u8]) -> Self {
        A32(<[u8; 32]>::from_bytes(b))
    }
}
impl Pat for () {
    fn from_bytes(_: &[u8]) -> Self {}
}
impl Pat for [u64; 0] {
    fn from_bytes(_: &[u8]) -> Self {
        []
    }
}
impl Pat for Z64 {
    fn from_bytes(_: &[u8]) -> Self {
        Z64
    }
}

fn guarded<R>(f: impl FnOnce() -> R) -> Result<R, Res> {
    match catch_unwind(AssertUnwindSafe(|| track::recorded(f))) {
        Ok(r) => Ok(r),
        Err(e) => Err(Res::Panic(panic_kind(e))),
    }
}

/// single value flavours: alloc, try_alloc, alloc_with, try_alloc_with
fn alloc_val<T: Pat, const M: usize>(b: &Bump<M>, rng: &mut Rng, how: u64) -> (String, Layout, AllocOut) {
    let lay = Layout::new::<T>();
    let bytes = pattern(rng, lay.size());
    let v = T::from_bytes(&bytes);
    let name = format!("{}<{}>", ["alloc", "try_alloc", "alloc_with", "try_alloc_with"][how as usize], std::any::type_name::<T>());
    let r = guarded(|| match how {
        0 => Ok(b.alloc(v) as *mut T as usize),
        1 => b.try_alloc(v).map(|r| r as *mut T as usize).map_err(|_| ()),
        2 => Ok(b.alloc_with(|| v) as *mut T as usize),
        _ => b.try_alloc_with(|| v).map(|r| r as *mut T as usize).map_err(|_| ()),
    });
    let out = match r {
        Ok(Ok(a)) => Ok((a, lay.size(), lay.align(), bytes)),
        Ok(Err(())) => Err(Res::Err),
        Err(p) => Err(p),
    };
    (name, lay, out)
}

/// slice flavours over element type T
/// an ExactSizeIterator that yields more items than its len() promises
struct Oversupply<'a, T: Copy> { items: &'a [T], pos: usize, promised: usize }
impl<'a, T: Copy> Iterator for Oversupply<'a, T> {
    type Item = T;
    fn next(&mut self) -> Option<T> { let r = self.items.get(self.pos).copied(); self.pos += 1; r }
    fn size_hint(&self) -> (usize, Option<usize>) { (self.promised.saturating_sub(self.pos.min(self.promised)), Some(self.promised.saturating_sub(self.pos.min(self.promised)))) }
}
impl<'a, T: Copy> ExactSizeIterator for Oversupply<'a, T> {}

fn alloc_slice<T: Pat + Default, const M: usize>(b: &Bump<M>, rng: &mut Rng, how: u64, n: usize) -> (String, Layout, AllocOut, bool) {
    let es = std::mem::size_of::<T>();
    let lay = Layout::array::<T>(n).unwrap();
    let mut order_ok = true;
    let names = [
        "alloc_slice_copy", "try_alloc_slice_copy", "alloc_slice_clone", "try_alloc_slice_clone",
        "alloc_slice_fill_with", "try_alloc_slice_fill_with", "alloc_slice_fill_iter", "try_alloc_slice_fill_iter",
        "alloc_slice_fill_copy", "try_alloc_slice_fill_copy", "alloc_slice_fill_clone", "try_alloc_slice_fill_clone",
        "alloc_slice_fill_default", "try_alloc_slice_fill_default",
    ];
    let name = format!("{}<{}>", names[how as usize], std::any::type_name::<T>());
    let bytes: Vec<u8> = match how {
        8..=11 => {
            let one = pattern(rng, es);
            let mut v = Vec::new();
            for _ in 0..n {
                v.extend_from_slice(&one);
            }
            v
        }
        12 | 13 => {
            // Default of our pattern types is all-zero bytes
            vec![0u8; es * n]
        }
        _ => pattern(rng, es * n),
    };
    let src: Vec<T> = (0..n).map(|i| T::from_bytes(&bytes[i * es..])).collect();
    let mut calls: Vec<usize> = Vec::with_capacity(n + 1);
    let oversupply = if (how == 6 || how == 7) && rng.chance(1, 3) { 1 + rng.usize_below(9) } else { 0 };
    let mut returned_len = n;
    // (built before the tracked region: the harness's own allocations must not enter the request log)
    let mut over_items: Vec<T> = src.clone();
    let filler = T::from_bytes(&vec![0xEEu8; es]);
    for i in 0..oversupply { over_items.push(if n > 0 { src[i % n] } else { filler }); }
    let r = guarded(|| -> Result<usize, ()> {
        let p = match how {
            0 => b.alloc_slice_copy(&src[..]).as_mut_ptr(),
            1 => b.try_alloc_slice_copy(&src[..]).map_err(|_| ())?.as_mut_ptr(),
            2 => b.alloc_slice_clone(&src[..]).as_mut_ptr(),
            3 => b.try_alloc_slice_clone(&src[..]).map_err(|_| ())?.as_mut_ptr(),
            4 => b.alloc_slice_fill_with(n, |i| { track::paused(|| calls.push(i)); src[i] }).as_mut_ptr(),
            5 => b.try_alloc_slice_fill_with(n, |i| { track::paused(|| calls.push(i)); src[i] }).map_err(|_| ())?.as_mut_ptr(),
            6 | 7 if oversupply > 0 => {
                // the iterator promises n items and has more: exactly n are taken, the block is n long
                let it = Oversupply { items: &over_items[..], pos: 0, promised: n };
                let sl = if how == 6 { b.alloc_slice_fill_iter(it) } else { b.try_alloc_slice_fill_iter(it).map_err(|_| ())? };
                returned_len = sl.len();
                sl.as_mut_ptr()
            }
            6 => b.alloc_slice_fill_iter(src.iter().copied()).as_mut_ptr(),
            7 => b.try_alloc_slice_fill_iter(src.iter().copied()).map_err(|_| ())?.as_mut_ptr(),
            8 => b.alloc_slice_fill_copy(n, if n > 0 { src[0] } else { T::from_bytes(&vec![0u8; es]) }).as_mut_ptr(),
            9 => b.try_alloc_slice_fill_copy(n, if n > 0 { src[0] } else { T::from_bytes(&vec![0u8; es]) }).map_err(|_| ())?.as_mut_ptr(),
            10 => b.alloc_slice_fill_clone(n, &(if n > 0 { src[0] } else { T::from_bytes(&vec![0u8; es]) })).as_mut_ptr(),
            11 => b.try_alloc_slice_fill_clone(n, &(if n > 0 { src[0] } else { T::from_bytes(&vec![0u8; es]) })).map_err(|_| ())?.as_mut_ptr(),
            12 => b.alloc_slice_fill_default::<T>(n).as_mut_ptr(),
            _ => b.try_alloc_slice_fill_default::<T>(n).map_err(|_| ())?.as_mut_ptr(),
        };
        Ok(p as usize)
    });
    let out = match r {
        Ok(Ok(a)) => {
            if how == 4 || how == 5 {
                order_ok = calls.iter().copied().eq(0..n);
            }
            if returned_len != n {
                println!("K slice length {} claims more than the {} elements reserved ({})", returned_len, n, name);
            }
            Ok((a, lay.size(), lay.align(), bytes))
        }
        Ok(Err(())) => Err(Res::Err),
        Err(p) => Err(p),
    };
    (name, lay, out, order_ok)
}

impl Default for A32 {
    fn default() -> Self {
        A32([0; 32])
    }
}

impl<const M: usize> Drv<M> {
    fn b(&self) -> &Bump<M> {
        self.bump.as_ref().unwrap()
    }

    fn line(&mut self, s: &str) {
        let mut o = self.out.lock();
        o.write_all(s.as_bytes()).unwrap();
        o.write_all(b"\n").unwrap();
        o.flush().unwrap();
    }

    fn begin(&mut self, desc: &str) {
        self.line(&format!("B {}", desc));
        self.log_mark = track::log_len();
        STORES.with(|s| s.borrow_mut().clear());
    }

    /// observation fields after an operation (or at a closure entry)
    fn obs(&mut self) -> String {
        let evs = track::events(self.log_mark, track::log_len());
        self.log_mark = track::log_len();
        let mut r = String::new();
        let mut f = String::new();
        for e in &evs {
            match e.kind {
                Kind::Alloc => r.push_str(&format!(" {}:{}:{}", e.size, e.align, e.addr)),
                Kind::Dealloc => f.push_str(&format!(" {}:{}:{}", e.addr, e.size, e.align)),
                Kind::Realloc => r.push_str(&format!(" realloc:{}:{}:{}", e.size, e.align, e.addr)),
            }
        }
        let stores: Vec<usize> = STORES.with(|s| s.borrow_mut().drain(..).collect());
        let s: String = stores.iter().map(|a| format!(" {}", a)).collect();
        let (q, c) = match &self.bump {
            Some(b) => {
                // looking at the arena (Debug, in both forms) must not change it: the getters are read
                // afterwards and compared with the model
                std::hint::black_box(format!("{:?}{:#?}", b, b));
                self.log_mark = track::log_len();
                let lim = match b.allocation_limit() {
                    Some(l) => l.to_string(),
                    None => "-".into(),
                };
                let chunks: Vec<(usize, usize)> = unsafe { b.iter_allocated_chunks_raw().map(|(p, l)| (p as usize, l)).collect() };
                (
                    format!("{} {} {} {}", b.allocated_bytes(), b.allocated_bytes_including_metadata(), b.chunk_capacity(), lim),
                    chunks.iter().map(|(p, l)| format!(" {}:{}", p, l)).collect::<String>(),
                )
            }
            None => ("0 0 0 -".into(), String::new()),
        };
        format!("|{} |{} |{} | {} | {} |{}", r, f, s, "{RES}", q, c)
    }

    fn end(&mut self, desc: &str, res: &Res) {
        let o = self.obs().replace("{RES}", &res.show());
        self.line(&format!("O {} {}", desc, o));
        self.nops += 1;
    }

    fn check_contents(&mut self) {
        // C10: the safe and the raw chunk iterators yield the same sequence
        let mut iter_msgs: Vec<String> = Vec::new();
        if let Some(b) = self.bump.as_mut() {
            let raw: Vec<(usize, usize)> = unsafe { b.iter_allocated_chunks_raw().map(|(p, l)| (p as usize, l)).collect() };
            let safe: Vec<(usize, usize)> = b.iter_allocated_chunks().map(|c| (c.as_ptr() as usize, c.len())).collect();
            if raw != safe {
                let show = |v: &Vec<(usize, usize)>| v.iter().map(|(p, l)| format!("{}:{}", p, l)).collect::<Vec<_>>().join(",");
                let msg = format!("K bad chunk iterators disagree raw=[{}] safe=[{}]", show(&raw), show(&safe));
                iter_msgs.push(msg);
            }
            // the other ways of consuming the two iterators (last, count, nth, fold through size_hint-using
            // adaptors) and an iterator that has already run to its end: all consistent with the sequence
            let want_last = raw.last().copied();
            let raw_last = unsafe { b.iter_allocated_chunks_raw().last().map(|(p, l)| (p as usize, l)) };
            let raw_count = unsafe { b.iter_allocated_chunks_raw().count() };
            let raw_nth1 = unsafe { b.iter_allocated_chunks_raw().nth(1).map(|(p, l)| (p as usize, l)) };
            let raw_done_last = unsafe { let mut it = b.iter_allocated_chunks_raw(); while it.next().is_some() {} (it.next().is_none(), it.last().is_none()) };
            let safe_last = b.iter_allocated_chunks().last().map(|c| (c.as_ptr() as usize, c.len()));
            let safe_count = b.iter_allocated_chunks().count();
            let safe_nth1 = b.iter_allocated_chunks().nth(1).map(|c| (c.as_ptr() as usize, c.len()));
            let safe_done_last = { let mut it = b.iter_allocated_chunks(); while it.next().is_some() {} (it.next().is_none(), it.last().is_none()) };
            let skipped: Vec<(usize, usize)> = b.iter_allocated_chunks().skip(1).map(|c| (c.as_ptr() as usize, c.len())).collect();
            if raw_last != want_last || safe_last != want_last || raw_count != raw.len() || safe_count != raw.len()
                || raw_nth1 != raw.get(1).copied() || safe_nth1 != raw.get(1).copied()
                || raw_done_last != (true, true) || safe_done_last != (true, true)
                || skipped[..] != raw[raw.len().min(1)..] {
                let msg = format!("K bad chunk iterators: last/count/nth/skip or an exhausted iterator disagree with the sequence: chunks={} raw_last={:?} safe_last={:?} counts={}/{} exhausted={:?}/{:?}",
                    raw.len(), raw_last, safe_last, raw_count, safe_count, raw_done_last, safe_done_last);
                iter_msgs.push(msg);
            }
        }
        for m in iter_msgs { self.line(&m); }
        let mut bad = None;
        let mut n = 0;
        for (i, b) in self.blks.iter().enumerate() {
            if b.live && b.size <= HUGE && b.size > 0 {
                n += 1;
                let got = unsafe { read_bytes(b.addr, b.size) };
                if got != b.exp {
                    let off = got.iter().zip(b.exp.iter()).position(|(x, y)| x != y).unwrap_or(0);
                    bad = Some((i, off));
                    break;
                }
            }
        }
        self.content_checks += 1;
        match bad {
            None => self.line(&format!("C ok {}", n)),
            Some((i, off)) => {
                let b = &self.blks[i];
                self.line(&format!("C bad addr={} size={} off={}", b.addr, b.size, off));
            }
        }
    }

    fn live_idx(&mut self) -> Option<usize> {
        let live: Vec<usize> = (0..self.blks.len()).filter(|&i| self.blks[i].live).collect();
        if live.is_empty() {
            return None;
        }
        // 60 %: the most recent live block
        if self.rng.chance(6, 10) {
            Some(*live.last().unwrap())
        } else {
            Some(*self.rng.pick(&live))
        }
    }

    fn pick_align(&mut self) -> usize {
        let r = self.rng.below(100);
        if r < 70 {
            1 << self.rng.below(5)
        } else if r < 92 {
            1 << self.rng.below(8)
        } else {
            1 << self.rng.below(13)
        }
    }

    fn pick_size(&mut self, align: usize) -> usize {
        let cap = self.bump.as_ref().map(|b| b.chunk_capacity()).unwrap_or(0);
        let r = self.rng.below(100);
        let s = if r < 8 {
            0
        } else if r < 50 {
            1 + self.rng.usize_below(64)
        } else if r < 72 {
            // around the remaining capacity of the current chunk
            let d = self.rng.usize_below(2 * align + 2);
            (cap + d).saturating_sub(align + 1)
        } else if r < 90 {
            let k = 1usize << (3 + self.rng.below(14));
            (k + self.rng.usize_below(3)).saturating_sub(1)
        } else if r < 97 {
            self.rng.usize_below(1 << 16)
        } else {
            // impossible sizes: isize::MAX region
            let top = isize::MAX as usize;
            *self.rng.pick(&[top, top - align, top - align + 1, top + 1 - 2 * align, top / 2 + 1, 1usize << 50])
        };
        s
    }

    fn valid_layout(&mut self) -> Layout {
        loop {
            let a = self.pick_align();
            let s = self.pick_size(a);
            if let Ok(l) = Layout::from_size_align(s, a) {
                return l;
            }
        }
    }

    fn record_alloc(&mut self, desc: &str, out: AllocOut) {
        match out {
            Ok((addr, size, align, exp)) => {
                self.blks.push(Blk { addr, size, align, exp, live: true });
                self.end(desc, &Res::Ok(addr));
            }
            Err(r) => self.end(desc, &r),
        }
    }

    /// a raw-layout allocation with given parameters (regression scenarios)
    fn op_alloc_forced(&mut self, size: usize, align: usize, how: u64) {
        let lay = Layout::from_size_align(size, align).unwrap();
        let name = ["alloc_layout", "try_alloc_layout", "allocate"][how as usize];
        let desc = format!("alloc {} {} {} {}", lay.size(), lay.align(), (how != 0) as u8, name);
        let mut rng = self.rng.fork();
        self.begin(&desc);
        let b = self.bump.as_ref().unwrap();
        let r = guarded(|| match how {
            0 => Ok(b.alloc_layout(lay).as_ptr() as usize),
            1 => b.try_alloc_layout(lay).map(|p| p.as_ptr() as usize).map_err(|_| ()),
            _ => (&b).allocate(lay).map(|p| p.as_ptr() as *mut u8 as usize).map_err(|_| ()),
        });
        let out = match r {
            Ok(Ok(a)) => {
                let exp = if lay.size() <= HUGE { pattern(&mut rng, lay.size()) } else { Vec::new() };
                if lay.size() <= HUGE {
                    unsafe { write_bytes(a, &exp) };
                }
                Ok((a, lay.size(), lay.align(), exp))
            }
            Ok(Err(())) => Err(Res::Err),
            Err(p) => Err(p),
        };
        self.record_alloc(&desc, out);
    }

    /// an allocation of `uniform`-aligned bytes whose size is a multiple of the alignment
    fn op_alloc_uniform(&mut self) {
        let a = self.uniform;
        let cap = self.b().chunk_capacity();
        let units = match self.rng.below(10) {
            0 => 0,
            1..=5 => 1 + self.rng.usize_below(12),
            6 | 7 => (cap / a + self.rng.usize_below(3)).saturating_sub(1).min(1 << 14),
            _ => self.rng.usize_below(700),
        };
        let lay = Layout::from_size_align(units * a, a).unwrap();
        let how = self.rng.below(2);
        let name = ["alloc_layout", "try_alloc_layout"][how as usize];
        let desc = format!("alloc {} {} {} {}", lay.size(), lay.align(), (how != 0) as u8, name);
        let mut rng = self.rng.fork();
        self.begin(&desc);
        let b = self.bump.as_ref().unwrap();
        let r = guarded(|| match how {
            0 => Ok(b.alloc_layout(lay).as_ptr() as usize),
            _ => b.try_alloc_layout(lay).map(|p| p.as_ptr() as usize).map_err(|_| ()),
        });
        let out = match r {
            Ok(Ok(p)) => {
                let exp = pattern(&mut rng, lay.size());
                unsafe { write_bytes(p, &exp) };
                Ok((p, lay.size(), lay.align(), exp))
            }
            Ok(Err(())) => Err(Res::Err),
            Err(p) => Err(p),
        };
        self.record_alloc(&desc, out);
    }

    fn op_alloc(&mut self) {
        let kind = self.rng.below(100);
        let mut rng = self.rng.fork();
        if kind < 30 {
            // raw layout flavours
            let lay = self.valid_layout();
            let how = self.rng.below(5);
            let name = ["alloc_layout", "try_alloc_layout", "allocate", "allocate_zeroed", "by_ref_allocate"][how as usize];
            let desc = format!("alloc {} {} {} {}", lay.size(), lay.align(), (how != 0) as u8, name);
            self.begin(&desc);
            let infallible = how == 0;
            let b = self.bump.as_ref().unwrap();
            // the Allocator methods return a slice: its length is the size asked for, and
            // allocate_zeroed hands out zeroes
            let mut slice_note: Option<String> = None;
            let r = guarded(|| match how {
                0 => Ok(b.alloc_layout(lay).as_ptr() as usize),
                1 => b.try_alloc_layout(lay).map(|p| p.as_ptr() as usize).map_err(|_| ()),
                2 => (&b).allocate(lay).map(|p| { if p.len() != lay.size() { slice_note = Some(format!("K bad slice length allocate {} for {}", p.len(), lay.size())); } p.as_ptr() as *mut u8 as usize }).map_err(|_| ()),
                3 => (&b).allocate_zeroed(lay).map(|p| {
                    if p.len() != lay.size() { slice_note = Some(format!("K bad slice length allocate_zeroed {} for {}", p.len(), lay.size())); }
                    if lay.size() <= HUGE && unsafe { read_bytes(p.as_ptr() as *mut u8 as usize, lay.size()) }.iter().any(|x| *x != 0) { slice_note = Some("K bad allocate_zeroed not zeroed".to_string()); }
                    p.as_ptr() as *mut u8 as usize }).map_err(|_| ()),
                _ => { let bb = &b; let r = Allocator::by_ref(&bb); r.allocate(lay).map(|p| { if p.len() != lay.size() { slice_note = Some(format!("K bad slice length by_ref {} for {}", p.len(), lay.size())); } p.as_ptr() as *mut u8 as usize }).map_err(|_| ()) }
            });
            let _ = infallible;
            let out = match r {
                Ok(Ok(a)) => {
                    let exp = if lay.size() <= HUGE { pattern(&mut rng, lay.size()) } else { Vec::new() };
                    if lay.size() <= HUGE {
                        unsafe { write_bytes(a, &exp) };
                    }
                    Ok((a, lay.size(), lay.align(), exp))
                }
                Ok(Err(())) => Err(Res::Err),
                Err(p) => Err(p),
            };
            self.record_alloc(&desc, out);
            if let Some(n) = slice_note { self.line(&n); }
        } else if kind < 60 {
            let how = self.rng.below(4);
            let ty = self.rng.below(12);
            macro_rules! go {
                ($t:ty) => {{
                    // the layout is known statically: announce before running
                    let lay = Layout::new::<$t>();
                    let desc = format!("alloc {} {} {} {}<{}>", lay.size(), lay.align(), how % 2, ["alloc", "try_alloc", "alloc_with", "try_alloc_with"][how as usize], stringify!($t).replace(' ', ""));
                    self.begin(&desc);
                    let (_n, _l, out) = alloc_val::<$t, M>(self.bump.as_ref().unwrap(), &mut rng, how);
                    self.record_alloc(&desc, out);
                }};
            }
            match ty {
                0 => go!(u8),
                1 => go!(u16),
                2 => go!(u32),
                3 => go!(u64),
                4 => go!(u128),
                5 => go!([u8; 3]),
                6 => go!([u8; 24]),
                7 => go!([u64; 5]),
                8 => go!(A32),
                9 => go!(()),
                10 => go!([u64; 0]),
                _ => go!(Z64),
            }
        } else if kind < 92 {
            let how = self.rng.below(14);
            let ty = self.rng.below(8);
            let cap = self.b().chunk_capacity();
            macro_rules! go {
                ($t:ty) => {{
                    let es = std::mem::size_of::<$t>();
                    let r = self.rng.below(10);
                    let n = if r < 1 { 0 } else if r < 6 { 1 + self.rng.usize_below(24) } else if r < 8 { (cap / es.max(1) + self.rng.usize_below(3)).saturating_sub(1).min(1 << 16) } else { self.rng.usize_below(3000) };
                    let lay = Layout::array::<$t>(n).unwrap();
                    let desc = format!("alloc {} {} {} slice{}<{}>", lay.size(), lay.align(), how % 2, how, stringify!($t));
                    self.begin(&desc);
                    let (_n, _l, out, order_ok) = alloc_slice::<$t, M>(self.bump.as_ref().unwrap(), &mut rng, how, n);
                    self.record_alloc(&desc, out);
                    if !order_ok {
                        self.line("K bad fill_with call order");
                    }
                }};
            }
            match ty {
                0 => go!(u8),
                1 => go!(u16),
                2 => go!(u64),
                3 => go!(u128),
                4 => go!(A32),
                // alignment 1 but more than one byte; several words
                5 => go!([u8; 3]),
                6 => go!([u8; 24]),
                _ => go!([u64; 5]),
            }
        } else {
            // alloc_str / try_alloc_str
            let how = self.rng.below(2);
            let n = self.rng.usize_below(80);
            let s: String = (0..n).map(|_| *rng.pick(&['a', 'b', 'é', 'ß', '€', '𝄞', 'z'])).collect();
            let desc = format!("alloc {} 1 {} {}", s.len(), how, ["alloc_str", "try_alloc_str"][how as usize]);
            self.begin(&desc);
            let b = self.bump.as_ref().unwrap();
            let r = guarded(|| match how {
                0 => Ok(b.alloc_str(&s).as_mut_ptr() as usize),
                _ => b.try_alloc_str(&s).map(|r| r.as_mut_ptr() as usize).map_err(|_| ()),
            });
            let out = match r {
                Ok(Ok(a)) => Ok((a, s.len(), 1, s.as_bytes().to_vec())),
                Ok(Err(())) => Err(Res::Err),
                Err(p) => Err(p),
            };
            self.record_alloc(&desc, out);
        }
    }

    fn op_dealloc(&mut self) {
        let Some(i) = self.live_idx() else { return };
        let blk = self.blks[i].clone();
        let desc = format!("dealloc {} {} {}", blk.addr, blk.size, blk.align);
        self.begin(&desc);
        let b = self.bump.as_ref().unwrap();
        let r = guarded(|| unsafe {
            (&b).deallocate(NonNull::new_unchecked(blk.addr as *mut u8), Layout::from_size_align_unchecked(blk.size, blk.align))
        });
        self.blks[i].live = false;
        match r {
            Ok(()) => self.end(&desc, &Res::Unit),
            Err(p) => self.end(&desc, &p),
        }
    }

    fn new_size(&mut self, old: usize, grow: bool) -> usize {
        let r = self.rng.below(10);
        if grow {
            match r {
                0 => old,
                1 => old + 1,
                2 => old * 2,
                3 => old + 8,
                4 => old + self.b().chunk_capacity(),
                5 => old + self.b().chunk_capacity() + 1,
                _ => old + self.rng.usize_below(200),
            }
        } else {
            match r {
                0 => old,
                1 => old.saturating_sub(1),
                2 => old / 2,
                3 => (old + 1) / 2,
                4 => 0,
                5 => (old / 2).saturating_sub(1),
                _ => self.rng.usize_below(old + 1),
            }
        }
    }

    fn op_grow_shrink(&mut self, grow: bool) {
        let Some(i) = self.live_idx() else { return };
        let blk = self.blks[i].clone();
        if blk.size > HUGE {
            return;
        }
        let nsize = self.new_size(blk.size, grow);
        let r = self.rng.below(10);
        let nalign = if r < 5 {
            blk.align
        } else if r < 8 {
            // the largest alignment the block happens to have (up to 4096): the "lucky" paths
            let tz = (blk.addr | 4096).trailing_zeros();
            1usize << self.rng.below(tz as u64 + 1)
        } else {
            self.pick_align()
        };
        let Ok(nl) = Layout::from_size_align(nsize, nalign) else { return };
        let ol = Layout::from_size_align(blk.size, blk.align).unwrap();
        let zeroed = grow && self.rng.chance(1, 3);
        let desc = if grow {
            format!("grow {} {} {} {} {} {}", zeroed as u8, blk.addr, blk.size, blk.align, nsize, nalign)
        } else {
            format!("shrink {} {} {} {} {}", blk.addr, blk.size, blk.align, nsize, nalign)
        };
        self.begin(&desc);
        let b = self.bump.as_ref().unwrap();
        let r = guarded(|| unsafe {
            let p = NonNull::new_unchecked(blk.addr as *mut u8);
            let r = if grow {
                if zeroed { (&b).grow_zeroed(p, ol, nl) } else { (&b).grow(p, ol, nl) }
            } else {
                (&b).shrink(p, ol, nl)
            };
            r.map(|q| (q.as_ptr() as *mut u8 as usize, q.len())).map_err(|_| ())
        });
        // the slice the Allocator method hands back is as long as the new layout asks
        let r = match r { Ok(Ok((a, l))) => { if l != nsize { self.line(&format!("K bad slice length {} {} for {}", if grow { "grow" } else { "shrink" }, l, nsize)); } Ok(Ok(a)) } Ok(Err(())) => Ok(Err(())), Err(p) => Err(p) };
        match r {
            Ok(Ok(a)) => {
                self.blks[i].live = false;
                let keep = blk.size.min(nsize);
                let mut exp = blk.exp[..keep].to_vec();
                if nsize > keep {
                    let tail = if zeroed { vec![0u8; nsize - keep] } else { pattern(&mut self.rng, nsize - keep) };
                    if !zeroed {
                        unsafe { write_bytes(a + keep, &tail) };
                    }
                    exp.extend_from_slice(&tail);
                }
                self.blks.push(Blk { addr: a, size: nsize, align: nalign, exp, live: true });
                self.end(&desc, &Res::Ok(a));
            }
            Ok(Err(())) => self.end(&desc, &Res::Err),
            Err(p) => self.end(&desc, &p),
        }
    }

    fn op_realloc(&mut self) {
        let Some(i) = self.live_idx() else { return };
        let blk = self.blks[i].clone();
        if blk.size > HUGE {
            return;
        }
        let grow = self.rng.chance(1, 2);
        let mut n = self.new_size(blk.size, grow);
        if self.rng.chance(1, 40) {
            n = isize::MAX as usize - self.rng.usize_below(3 * blk.align);
        }
        let desc = format!("realloc {} {} {} {}", blk.addr, blk.size, blk.align, n);
        self.begin(&desc);
        let b = self.bump.as_ref().unwrap();
        let r = guarded(|| unsafe {
            bumpalo::verif_hooks::realloc(b, NonNull::new_unchecked(blk.addr as *mut u8), Layout::from_size_align_unchecked(blk.size, blk.align), n)
                .map(|q| q.as_ptr() as usize)
                .map_err(|_| ())
        });
        match r {
            Ok(Ok(a)) => {
                // Alloc::realloc of a zero-sized block hands back a fresh block of the OLD layout
                let nsize = if blk.size == 0 { 0 } else { n };
                self.blks[i].live = false;
                let keep = blk.size.min(nsize);
                let mut exp = blk.exp[..keep].to_vec();
                if nsize > keep {
                    let tail = pattern(&mut self.rng, nsize - keep);
                    unsafe { write_bytes(a + keep, &tail) };
                    exp.extend_from_slice(&tail);
                }
                self.blks.push(Blk { addr: a, size: nsize, align: blk.align, exp, live: true });
                self.end(&desc, &Res::Ok(a));
            }
            Ok(Err(())) => self.end(&desc, &Res::Err),
            Err(p) => self.end(&desc, &p),
        }
    }

    fn op_reset(&mut self) {
        self.begin("reset");
        let bump = self.bump.as_mut().unwrap();
        let r = guarded(|| bump.reset());
        for b in self.blks.iter_mut() {
            b.live = false;
        }
        self.blks.clear();
        match r {
            Ok(()) => self.end("reset", &Res::Unit),
            Err(p) => self.end("reset", &p),
        }
    }

    fn op_setlimit(&mut self) {
        let held = self.b().allocated_bytes();
        let r = self.rng.below(12);
        let lim: Option<usize> = match r {
            0 | 1 => None,
            2 => Some(0),
            3 => Some(held.saturating_sub(1)),
            4 => Some(held),
            5 => Some(held + 1),
            6 => Some(held + self.rng.usize_below(600)),
            7 => Some(self.rng.usize_below(500)),
            8 => Some(held * 2 + self.rng.usize_below(100)),
            9 => Some(held * 3 + 64),
            _ => Some(self.rng.usize_below(1 << 20)),
        };
        let lim = match self.force_limit.take() { Some(l) => l, None => lim };
        let desc = format!("setlimit {}", lim.map(|l| l.to_string()).unwrap_or("-".into()));
        self.begin(&desc);
        self.b().set_allocation_limit(lim);
        self.end(&desc, &Res::Unit);
    }

    /// what an initialiser closure does inside the arena
    fn inner_actions(&mut self) {
        let n = self.rng.below(4);
        for _ in 0..n {
            let r = self.rng.below(10);
            if r < 5 {
                self.op_alloc();
            } else if r < 7 {
                // allocate and release
                self.op_alloc();
                if let Some(last) = self.blks.iter().rposition(|b| b.live) {
                    let blk = self.blks[last].clone();
                    let desc = format!("dealloc {} {} {}", blk.addr, blk.size, blk.align);
                    self.begin(&desc);
                    let b = self.bump.as_ref().unwrap();
                    let r = guarded(|| unsafe { (&b).deallocate(NonNull::new_unchecked(blk.addr as *mut u8), Layout::from_size_align_unchecked(blk.size, blk.align)) });
                    self.blks[last].live = false;
                    match r {
                        Ok(()) => self.end(&desc, &Res::Unit),
                        Err(p) => self.end(&desc, &p),
                    }
                }
            } else if r < 8 {
                self.op_dealloc();
            } else if r < 9 {
                self.op_grow_shrink(true);
            } else {
                self.op_grow_shrink(false);
            }
        }
    }

    fn op_try_with(&mut self, depth: u32) {
        let combo = self.rng.below(9);
        let fallible = self.rng.chance(1, 2);
        let ok = self.rng.chance(1, 2);
        let nested = depth == 0 && self.rng.chance(1, 8);
        let forced = self.force_tw.take();
        let (combo, fallible, ok, nested) = match forced { Some((c, f, o)) => (c, f, o, false), None => (combo, fallible, ok, nested) };
        let quiet_inner = forced.is_some();
        // uniform histories: a third of the initialisers reserve a Result whose error type is aligned
        // above the history's alignment and fail, so that nothing of it may stay behind (C10)
        let over = forced.is_none() && self.uniform != 0 && self.uniform < 16 && self.rng.chance(1, 3);
        let ok = ok && !over;
        macro_rules! go {
            ($t:ty, $e:ty) => {{
                let lay = Layout::new::<Result<$t, $e>>();
                let desc = format!("twbegin {} {} {}", lay.size(), lay.align(), fallible as u8);
                self.begin(&desc);
                let tbytes = pattern(&mut self.rng, std::mem::size_of::<$t>());
                let ebytes = pattern(&mut self.rng, std::mem::size_of::<$e>());
                let tv = <$t as Pat>::from_bytes(&tbytes);
                let ev = <$e as Pat>::from_bytes(&ebytes);
                // the arena is used re-entrantly from the closure through a raw pointer
                let me: *mut Self = self;
                let bump: *const Bump<M> = self.bump.as_ref().unwrap();
                let mut entered = false;
                let mut p_at_entry = 0usize;
                let mut inner_ops = 0usize;
                let f = || -> Result<$t, $e> {
                    track::paused(|| {
                        let me = unsafe { &mut *me };
                        entered = true;
                        p_at_entry = unsafe { (*bump).iter_allocated_chunks_raw().next().map(|(p, _)| p as usize).unwrap_or(0) };
                        me.end(&desc, &Res::Entered(p_at_entry));
                    });
                    {
                        let me = unsafe { &mut *me };
                        track::paused(|| ());
                        let was = track::set_active(false);
                        let before = me.nops;
                        if me.uniform == 0 && !quiet_inner {
                            me.inner_actions();
                        }
                        if nested && me.uniform == 0 {
                            me.op_try_with(depth + 1);
                        }
                        inner_ops = me.nops - before;
                        me.begin(&format!("twend {}", ok as u8));
                        track::set_active(was);
                    }
                    if ok { Ok(tv) } else { Err(ev) }
                };
                let r = guarded(|| unsafe {
                    if fallible {
                        match (*bump).try_alloc_try_with(f) {
                            Ok(r) => Ok(r as *mut $t as usize),
                            Err(bumpalo::AllocOrInitError::Alloc(_)) => Err(None),
                            Err(bumpalo::AllocOrInitError::Init(e)) => Err(Some(e)),
                        }
                    } else {
                        match (*bump).alloc_try_with(f) {
                            Ok(r) => Ok(r as *mut $t as usize),
                            Err(e) => Err(Some(e)),
                        }
                    }
                });
                let desc2 = format!("twend {}", ok as u8);
                match r {
                    Ok(Ok(a)) => {
                        // the whole Result slot stays allocated; only T's bytes are known
                        let off = a - p_at_entry;
                        let mut exp = unsafe { read_bytes(p_at_entry, lay.size()) };
                        exp[off..off + tbytes.len()].copy_from_slice(&tbytes);
                        self.blks.push(Blk { addr: p_at_entry, size: lay.size(), align: lay.align(), exp, live: true });
                        if !ok { self.line("K bad twend returned Ok for a failing initialiser"); }
                        self.end(&desc2, &Res::Ok(a));
                    }
                    Ok(Err(Some(e))) => {
                        let got = unsafe { std::slice::from_raw_parts(&e as *const $e as *const u8, std::mem::size_of::<$e>()) }.to_vec();
                        if got != ebytes || ok {
                            self.line("K bad error value not handed back intact");
                        }
                        self.end(&desc2, &Res::Err);
                        if inner_ops == 0 && depth == 0 && !over {
                            // C11: the initialiser allocated nothing, so the same layout must now be
                            // served without asking the global allocator
                            let d = format!("alloc {} {} 1 probe_c11", lay.size(), lay.align());
                            self.begin(&d);
                            let b = self.bump.as_ref().unwrap();
                            let r = guarded(|| b.try_alloc_layout(lay).map(|p| p.as_ptr() as usize).map_err(|_| ()));
                            let out = match r {
                                Ok(Ok(a)) => {
                                    let exp = pattern(&mut self.rng, lay.size());
                                    unsafe { write_bytes(a, &exp) };
                                    Ok((a, lay.size(), lay.align(), exp))
                                }
                                Ok(Err(())) => Err(Res::Err),
                                Err(p) => Err(p),
                            };
                            self.record_alloc(&d, out);
                        }
                    }
                    Ok(Err(None)) => {
                        if entered { self.line("K bad allocation error after the initialiser ran"); }
                        self.end(&desc, &Res::Err);
                    }
                    Err(p) => {
                        if entered { self.end(&desc2, &p); } else { self.end(&desc, &p); }
                    }
                }
            }};
        }
        if self.uniform != 0 {
            // Result<T, T> with T an unsigned integer of the history's alignment: size 2*A, align A
            if over {
                match self.uniform {
                    1 => if self.rng.chance(1, 2) { go!(u8, u32) } else { go!(u8, u128) },
                    2 => go!(u16, u64),
                    4 => go!(u32, u64),
                    _ => go!(u64, u128),
                }
                return;
            }
            match self.uniform {
                1 => go!(u8, u8),
                2 => go!(u16, u16),
                4 => go!(u32, u32),
                8 => go!(u64, u64),
                _ => go!(u128, u128),
            }
            return;
        }
        if combo == 5 {
            self.op_try_with_zst(fallible);
            return;
        }
        match combo {
            0 => go!([u8; 100], u8),
            1 => go!(u64, u64),
            2 => go!(u128, ()),
            3 => go!((), ()),
            // a small value with a large error: the Result slot is much larger than T
            6 => go!(u64, [u8; 320]),
            7 => go!(u8, [u8; 400]),
            8 => go!(u32, [u8; 3000]),
            _ => go!([u8; 1000], u32),
        }
    }

    /// the same with an error type that has a destructor: it must run exactly once, in the caller's hands
    fn op_try_with_droppable_error(&mut self, depth: u32) {
        let quiet_inner = false;
        let fallible = self.rng.chance(1, 2);
        let ok = self.rng.chance(1, 3);
        let nested = depth == 0 && self.rng.chance(1, 8);
        {
                let lay = Layout::new::<Result<u64, ETok>>();
                let desc = format!("twbegin {} {} {}", lay.size(), lay.align(), fallible as u8);
                self.begin(&desc);
                let tbytes = pattern(&mut self.rng, std::mem::size_of::<u64>());
                let eid = self.rng.next() | 1;
                let tv = <u64 as Pat>::from_bytes(&tbytes);
                EDROPS.with(|d| d.set(0));
                let ev = ETok { id: eid, pad: [eid ^ 0x77; 3] };
                // the arena is used re-entrantly from the closure through a raw pointer
                let me: *mut Self = self;
                let bump: *const Bump<M> = self.bump.as_ref().unwrap();
                let mut entered = false;
                let mut p_at_entry = 0usize;
                let mut inner_ops = 0usize;
                let f = || -> Result<u64, ETok> {
                    track::paused(|| {
                        let me = unsafe { &mut *me };
                        entered = true;
                        p_at_entry = unsafe { (*bump).iter_allocated_chunks_raw().next().map(|(p, _)| p as usize).unwrap_or(0) };
                        me.end(&desc, &Res::Entered(p_at_entry));
                    });
                    {
                        let me = unsafe { &mut *me };
                        track::paused(|| ());
                        let was = track::set_active(false);
                        let before = me.nops;
                        if me.uniform == 0 && !quiet_inner {
                            me.inner_actions();
                        }
                        if nested && me.uniform == 0 {
                            me.op_try_with(depth + 1);
                        }
                        inner_ops = me.nops - before;
                        me.begin(&format!("twend {}", ok as u8));
                        track::set_active(was);
                    }
                    if ok { Ok(tv) } else { Err(ev) }
                };
                let r = guarded(|| unsafe {
                    if fallible {
                        match (*bump).try_alloc_try_with(f) {
                            Ok(r) => Ok(r as *mut u64 as usize),
                            Err(bumpalo::AllocOrInitError::Alloc(_)) => Err(None),
                            Err(bumpalo::AllocOrInitError::Init(e)) => Err(Some(e)),
                        }
                    } else {
                        match (*bump).alloc_try_with(f) {
                            Ok(r) => Ok(r as *mut u64 as usize),
                            Err(e) => Err(Some(e)),
                        }
                    }
                });
                let desc2 = format!("twend {}", ok as u8);
                match r {
                    Ok(Ok(a)) => {
                        // the whole Result slot stays allocated; only T's bytes are known
                        let off = a - p_at_entry;
                        let mut exp = unsafe { read_bytes(p_at_entry, lay.size()) };
                        exp[off..off + tbytes.len()].copy_from_slice(&tbytes);
                        self.blks.push(Blk { addr: p_at_entry, size: lay.size(), align: lay.align(), exp, live: true });
                        if !ok { self.line("K bad twend returned Ok for a failing initialiser"); }
                        self.end(&desc2, &Res::Ok(a));
                    }
                    Ok(Err(Some(e))) => {
                        // C11: the error is delivered exactly once: not dropped inside the arena, not duplicated
                        let dropped_inside = EDROPS.with(|d| d.get());
                        let intact = e.id == eid && e.pad == [eid ^ 0x77; 3];
                        drop(e);
                        let dropped_total = EDROPS.with(|d| d.get());
                        if dropped_inside != 0 || dropped_total != 1 || !intact || ok {
                            self.line(&format!("K bad error value delivery: dropped before return {} times, in total {} times, intact {}", dropped_inside, dropped_total, intact));
                        }
                        self.end(&desc2, &Res::Err);
                        if inner_ops == 0 && depth == 0 {
                            // C11: the initialiser allocated nothing, so the same layout must now be
                            // served without asking the global allocator
                            let d = format!("alloc {} {} 1 probe_c11", lay.size(), lay.align());
                            self.begin(&d);
                            let b = self.bump.as_ref().unwrap();
                            let r = guarded(|| b.try_alloc_layout(lay).map(|p| p.as_ptr() as usize).map_err(|_| ()));
                            let out = match r {
                                Ok(Ok(a)) => {
                                    let exp = pattern(&mut self.rng, lay.size());
                                    unsafe { write_bytes(a, &exp) };
                                    Ok((a, lay.size(), lay.align(), exp))
                                }
                                Ok(Err(())) => Err(Res::Err),
                                Err(p) => Err(p),
                            };
                            self.record_alloc(&d, out);
                        }
                    }
                    Ok(Err(None)) => {
                        if entered { self.line("K bad allocation error after the initialiser ran"); }
                        self.end(&desc, &Res::Err);
                    }
                    Err(p) => {
                        if entered { self.end(&desc2, &p); } else { self.end(&desc, &p); }
                    }
                }
        }
        if ok {
            // an Ok value leaves the unused error with the initialiser closure: dropped there, once
        }
    }

    /// a zero-sized Result slot: Result<Infallible, ()> can only be Err
    fn op_try_with_zst(&mut self, fallible: bool) {
        use std::convert::Infallible;
        let lay = Layout::new::<Result<Infallible, ()>>();
        let desc = format!("twbegin {} {} {}", lay.size(), lay.align(), fallible as u8);
        self.begin(&desc);
        let me: *mut Self = self;
        let bump: *const Bump<M> = self.bump.as_ref().unwrap();
        let mut entered = false;
        let f = || -> Result<Infallible, ()> {
            track::paused(|| {
                let me = unsafe { &mut *me };
                entered = true;
                // a zero-sized slot sits at the finger (or at the static for a chunk-less arena)
                let p = unsafe { (*bump).iter_allocated_chunks_raw().next().map(|(p, _)| p as usize) }
                    .unwrap_or(bumpalo::verif_hooks::consts()[7]);
                me.end(&desc, &Res::Entered(p));
                me.begin("twend 0");
            });
            Err(())
        };
        let r = guarded(|| unsafe {
            if fallible {
                match (*bump).try_alloc_try_with(f) {
                    Ok(_) => Ok(()),
                    Err(bumpalo::AllocOrInitError::Alloc(_)) => Err(false),
                    Err(bumpalo::AllocOrInitError::Init(())) => Err(true),
                }
            } else {
                match (*bump).alloc_try_with(f) {
                    Ok(_) => Ok(()),
                    Err(()) => Err(true),
                }
            }
        });
        match r {
            Ok(Err(true)) => self.end("twend 0", &Res::Err),
            Ok(Err(false)) => self.end(&desc, &Res::Err),
            Ok(Ok(())) => self.line("K bad zero-sized Result came back Ok"),
            Err(p) => { if entered { self.end("twend 0", &p); } else { self.end(&desc, &p); } }
        }
    }

    /// C18: chunk_capacity() never overstates: ask for exactly that many bytes
    fn op_probe_capacity(&mut self) {
        let cap = self.b().chunk_capacity();
        if cap == 0 || cap > HUGE {
            return;
        }
        let lay = Layout::from_size_align(cap, 1).unwrap();
        let desc = format!("alloc {} 1 1 probe_c18", cap);
        self.begin(&desc);
        let b = self.bump.as_ref().unwrap();
        let r = guarded(|| b.try_alloc_layout(lay).map(|p| p.as_ptr() as usize).map_err(|_| ()));
        let out = match r {
            Ok(Ok(a)) => {
                let exp = pattern(&mut self.rng, cap);
                unsafe { write_bytes(a, &exp) };
                Ok((a, cap, 1, exp))
            }
            Ok(Err(())) => Err(Res::Err),
            Err(p) => Err(p),
        };
        self.record_alloc(&desc, out);
    }

    /// alloc_slice_try_fill_with / _iter: alloc_layout + callbacks + (on error) dealloc
    fn op_try_fill(&mut self) {
        // element types of several sizes and alignments: the slice's byte size need not be a
        // multiple of the minimum alignment
        match self.rng.below(4) {
            0 => self.op_try_fill_t::<u8>(),
            1 => self.op_try_fill_t::<[u8; 3]>(),
            _ => self.op_try_fill_t::<u64>(),
        }
    }

    fn op_try_fill_t<T: Pat>(&mut self) {
        let es = std::mem::size_of::<T>();
        let mut n = 1 + self.rng.usize_below(40);
        // every third time: a slice that only just fits what the current chunk can still serve
        // (C11: after a failed fill the same request must fit again)
        let cap_now = self.bump.as_ref().map(|b| b.chunk_capacity()).unwrap_or(0);
        let exact = self.rng.chance(1, 3) && cap_now >= es && cap_now / es <= 4000;
        if exact {
            let k = self.rng.usize_below(M.max(1) + 1);
            n = (cap_now.saturating_sub(k) / es).max(1);
        }
        let fail_at = if self.rng.chance(1, 2) { Some(self.rng.usize_below(n)) } else { None };
        let use_iter = self.rng.chance(1, 3);
        let with_inner = !exact && self.rng.chance(1, 3);
        let lay = Layout::array::<T>(n).unwrap();
        let bytes = pattern(&mut self.rng, es * n);
        let src: Vec<T> = (0..n).map(|i| T::from_bytes(&bytes[i * es..])).collect();
        let desc = format!("alloc {} {} 0 {}", lay.size(), lay.align(), if use_iter { "alloc_slice_try_fill_iter" } else { "alloc_slice_try_fill_with" });
        self.begin(&desc);
        let me: *mut Self = self;
        let bump: *const Bump<M> = self.bump.as_ref().unwrap();
        let mut calls: Vec<usize> = Vec::new();
        let mut p_at_entry = 0usize;
        let mut entered = false;
        let mut inner_done = false;
        let mut cb = |i: usize| -> Result<T, u32> {
            let was = track::set_active(false);
            let me = unsafe { &mut *me };
            if !entered {
                entered = true;
                p_at_entry = unsafe { (*bump).iter_allocated_chunks_raw().next().map(|(p, _)| p as usize).unwrap_or(0) };
                // the slot is live from here on
                me.end(&desc, &Res::Ok(p_at_entry));
            }
            calls.push(i);
            if with_inner && i % 7 == 3 {
                inner_done = true;
                me.inner_actions();
            }
            let r = if Some(i) == fail_at {
                // the implementation is about to dealloc the slot
                me.begin(&format!("dealloc {} {} {}", p_at_entry, lay.size(), lay.align()));
                Err(77u32)
            } else {
                Ok(src[i])
            };
            track::set_active(was);
            r
        };
        let r = guarded(|| unsafe {
            if use_iter {
                let items: Vec<Result<T, u32>> = track::paused(|| (0..n).map(|i| if Some(i) == fail_at { Err(77u32) } else { Ok(src[i]) }).collect());
                // an iterator whose next() reports to the same bookkeeping
                let mut i = 0usize;
                let it = std::iter::from_fn(|| {
                    if i < items.len() { let r = cb(i); i += 1; Some(r) } else { None }
                });
                struct Exact<I> { it: I, n: usize }
                impl<I: Iterator> Iterator for Exact<I> {
                    type Item = I::Item;
                    fn next(&mut self) -> Option<I::Item> { let r = self.it.next(); if r.is_some() { self.n -= 1; } r }
                    fn size_hint(&self) -> (usize, Option<usize>) { (self.n, Some(self.n)) }
                }
                impl<I: Iterator> ExactSizeIterator for Exact<I> {}
                (*bump).alloc_slice_try_fill_iter(Exact { it, n }).map(|s| s.as_mut_ptr() as usize)
            } else {
                (*bump).alloc_slice_try_fill_with(n, &mut cb).map(|s| s.as_mut_ptr() as usize)
            }
        });
        match r {
            Ok(Ok(a)) => {
                if a != p_at_entry || fail_at.is_some() { self.line("K bad try_fill result"); }
                if !calls.iter().copied().eq(0..n) { self.line("K bad try_fill call order"); }
                // only now does the slice belong to the client
                self.blks.push(Blk { addr: p_at_entry, size: lay.size(), align: lay.align(), exp: bytes.clone(), live: true });
            }
            Ok(Err(e)) => {
                if e != 77 || fail_at.is_none() { self.line("K bad try_fill error value"); }
                if !calls.iter().copied().eq(0..=fail_at.unwrap_or(0)) { self.line("K bad try_fill call order"); }
                let d = format!("dealloc {} {} {}", p_at_entry, lay.size(), lay.align());
                self.end(&d, &Res::Unit);
                if !inner_done {
                    // C11: the initialiser allocated nothing, so the same layout must now be
                    // served without asking the global allocator
                    let d = format!("alloc {} {} 1 probe_c11", lay.size(), lay.align());
                    self.begin(&d);
                    let b = self.bump.as_ref().unwrap();
                    let r = guarded(|| b.try_alloc_layout(lay).map(|p| p.as_ptr() as usize).map_err(|_| ()));
                    let out = match r {
                        Ok(Ok(a)) => {
                            let exp = pattern(&mut self.rng, lay.size());
                            unsafe { write_bytes(a, &exp) };
                            Ok((a, lay.size(), lay.align(), exp))
                        }
                        Ok(Err(())) => Err(Res::Err),
                        Err(p) => Err(p),
                    };
                    self.record_alloc(&d, out);
                }
            }
            Err(p) => {
                // reservation failed (oom) or something else panicked
                if !entered { self.end(&desc, &p); } else { self.line(&format!("K bad try_fill panicked {}", p.show())); }
            }
        }
    }
}

struct Plan {
    seed: u64,
    hid: u64,
    maxops: usize,
}

fn run_history<const M: usize>(plan: &Plan) {
    let mut rng = Rng::new(plan.seed ^ plan.hid.wrapping_mul(0xA24BAED4963EE407));
    let adversary = rng.chance(1, 2);
    track::set_adversary(adversary);
    track::clear_faults();
    track::reset_log();
    let c = bumpalo::verif_hooks::consts();
    let mode = if cfg!(debug_assertions) { "debug" } else { "release" };
    let mut d: Drv<M> = Drv { bump: None, blks: Vec::new(), rng, out: std::io::stdout(), log_mark: 0, nops: 0, content_checks: 0, uniform: 0, force_tw: None, force_limit: None };
    if M >= 1 && M <= 16 && plan.hid % 5 == 4 {
        // a uniform history: one alignment between MIN_ALIGN and 16
        let choices: Vec<usize> = [1usize, 2, 4, 8, 16].iter().copied().filter(|a| *a >= M).collect();
        d.uniform = choices[(plan.hid / 5) as usize % choices.len()];
    }
    d.line(&format!(
        "H id={} seed={} malign={} mode={} adversary={} eaddr={} consts={},{},{},{},{},{},{} uniform={}",
        plan.hid, plan.seed, M, mode, adversary as u8, c[7], c[0], c[1], c[2], c[3], c[4], c[5], c[6], d.uniform
    ));
    // fault plan for this history
    let fp = d.rng.below(10);
    // constructor
    let how = d.rng.below(4);
    let cap: usize = match d.rng.below(15) {
        0 => 0,
        1 => 1,
        2 => 15,
        3 => 16,
        4 => 17,
        5 => 447,
        6 => 448,
        7 => 449,
        8 => 4032,
        9 => 4033,
        10 => (1usize << (3 + d.rng.below(16))) + d.rng.usize_below(3) - 1,
        11 => isize::MAX as usize - d.rng.usize_below(40),
        12 => usize::MAX - d.rng.usize_below(20),
        _ => d.rng.usize_below(1 << 20),
    };
    if fp == 0 {
        track::set_fail_kth(1);
    }
    // for MIN_ALIGN = 1 the constructors of `impl Bump<1>` (new, try_new, with_capacity,
    // try_with_capacity) are taken half of the time: they must behave like the generic ones
    fn as_m<const M: usize>(b: Bump<1>) -> Bump<M> {
        assert!(M == 1);
        let r = unsafe { std::mem::transmute_copy::<Bump<1>, Bump<M>>(&b) };
        std::mem::forget(b);
        r
    }
    let plain = M == 1 && d.rng.chance(1, 2);
    let (desc, r): (String, Result<Result<Bump<M>, ()>, Res>) = match how {
        0 => ("cap 0 0".to_string(), { d.begin("cap 0 0"); guarded(|| Ok(if plain { if cap % 2 == 0 { as_m(Bump::new()) } else { as_m(Bump::try_new().unwrap()) } } else { Bump::<M>::with_min_align() })) }),
        1 | 2 => {
            let desc = format!("cap {} 0", cap);
            d.begin(&desc);
            (desc, guarded(|| Ok(if plain { as_m(Bump::with_capacity(cap)) } else { Bump::<M>::with_min_align_and_capacity(cap) })))
        }
        _ => {
            let desc = format!("cap {} 1", cap);
            d.begin(&desc);
            (desc, guarded(|| if plain { Bump::try_with_capacity(cap).map(as_m).map_err(|_| ()) } else { Bump::<M>::try_with_min_align_and_capacity(cap).map_err(|_| ()) }))
        }
    };
    match r {
        Ok(Ok(b)) => {
            if b.min_align() != M { d.line(&format!("K bad min_align reported {}", b.min_align())); }
            d.bump = Some(b);
            d.end(&desc, &Res::Unit);
        }
        Ok(Err(())) => {
            d.end(&desc, &Res::Err);
            d.line("E");
            return;
        }
        Err(p) => {
            d.end(&desc, &p);
            d.line("E");
            return;
        }
    }
    // C18: an arena built with a capacity serves that many bytes (in MIN_ALIGN multiples)
    // without obtaining more memory
    if d.uniform == 0 && how != 0 && cap > 0 && cap <= HUGE && fp != 0 && d.rng.chance(1, 2) {
        let want = cap - cap % M;
        if want > 0 {
            let parts = 1 + d.rng.usize_below(3);
            let mut left = want;
            for i in 0..parts {
                let sz = if i + 1 == parts { left } else { (left / 2) - (left / 2) % M };
                left -= sz;
                let lay = Layout::from_size_align(sz, 1).unwrap();
                let desc = format!("alloc {} 1 1 probe_c18cap", sz);
                d.begin(&desc);
                let b = d.bump.as_ref().unwrap();
                let r = guarded(|| b.try_alloc_layout(lay).map(|p| p.as_ptr() as usize).map_err(|_| ()));
                let out = match r {
                    Ok(Ok(a)) => {
                        let exp = pattern(&mut d.rng, sz);
                        unsafe { write_bytes(a, &exp) };
                        Ok((a, sz, 1, exp))
                    }
                    Ok(Err(())) => Err(Res::Err),
                    Err(p) => Err(p),
                };
                d.record_alloc(&desc, out);
            }
        }
    }
    let nops = 5 + d.rng.usize_below(plan.maxops.max(6) - 5);
    let uniform_mode = false;
    let _ = uniform_mode;
    for step in 0..nops {
        // fault plans: switched at random points
        match fp {
            1 => {
                if d.rng.chance(1, 8) {
                    track::set_fail_kth(1 + d.rng.usize_below(3));
                }
            }
            2 => track::set_fail_above(*d.rng.pick(&[512usize, 1024, 4096, 1 << 16])),
            3 => {
                if step == nops / 2 {
                    track::set_fail_all(true);
                }
            }
            4 => {
                if d.rng.chance(1, 6) {
                    let on = d.rng.chance(1, 2);
                    track::set_fail_all(on);
                }
            }
            _ => {}
        }
        let r = d.rng.below(100);
        if d.uniform != 0 {
            if r < 62 {
                d.op_alloc_uniform();
            } else if r < 80 {
                d.op_try_with(0);
            } else if r < 90 {
                d.op_reset();
            } else {
                d.op_setlimit();
            }
        } else if r < 48 {
            d.op_alloc();
        } else if r < 58 {
            d.op_dealloc();
        } else if r < 67 {
            d.op_grow_shrink(true);
        } else if r < 74 {
            d.op_grow_shrink(false);
        } else if r < 79 {
            d.op_realloc();
        } else if r < 83 {
            d.op_reset();
        } else if r < 88 {
            d.op_setlimit();
        } else if r < 94 {
            if d.rng.chance(1, 3) { d.op_try_with_droppable_error(0) } else { d.op_try_with(0) }
        } else if r < 96 {
            d.op_probe_capacity();
        } else {
            d.op_try_fill();
        }
        if step % 4 == 3 {
            d.check_contents();
        }
    }
    d.check_contents();
    track::clear_faults();
    d.begin("drop");
    let b = d.bump.take().unwrap();
    let r = guarded(move || drop(b));
    match r {
        Ok(()) => d.end("drop", &Res::Unit),
        Err(p) => d.end("drop", &p),
    }
    d.line("E");
}



// ---------------------------------------------------------------- regression scenarios
// The situations in which the defects listed in known_findings.json (fixed) showed: they are
// run on every check, through the same operations and the same checker as the random
// histories, so a defect that returns is reported whatever the random generator draws.
#[derive(Clone, Copy)]
enum Sc {
    Limit(Option<usize>),
    Alloc(usize, usize, u64),
    Reset,
    FailAll(bool),
    TryWith(u64, bool, bool),
}

fn run_scenario<const M: usize>(hid: u64, seed: u64, how: u64, cap: usize, steps: &[Sc]) {
    let rng = Rng::new(seed ^ hid.wrapping_mul(0x9E3779B97F4A7C15));
    track::set_adversary(false);
    track::clear_faults();
    track::reset_log();
    let c = bumpalo::verif_hooks::consts();
    let mode = if cfg!(debug_assertions) { "debug" } else { "release" };
    let mut d: Drv<M> = Drv { bump: None, blks: Vec::new(), rng, out: std::io::stdout(), log_mark: 0, nops: 0, content_checks: 0, uniform: 0, force_tw: None, force_limit: None };
    d.line(&format!(
        "H id={} seed={} malign={} mode={} adversary=0 eaddr={} consts={},{},{},{},{},{},{} uniform=0 scenario=1",
        hid, seed, M, mode, c[7], c[0], c[1], c[2], c[3], c[4], c[5], c[6]
    ));
    let desc = if how == 0 { "cap 0 0".to_string() } else { format!("cap {} 0", cap) };
    d.begin(&desc);
    let r = guarded(|| if how == 0 { Bump::<M>::with_min_align() } else { Bump::<M>::with_min_align_and_capacity(cap) });
    match r {
        Ok(b) => {
            d.bump = Some(b);
            d.end(&desc, &Res::Unit);
        }
        Err(p) => {
            d.end(&desc, &p);
            d.line("E");
            return;
        }
    }
    for st in steps {
        match *st {
            Sc::Limit(l) => {
                d.force_limit = Some(l);
                d.op_setlimit();
            }
            Sc::Alloc(size, align, how) => d.op_alloc_forced(size, align, how),
            Sc::Reset => d.op_reset(),
            Sc::FailAll(on) => track::set_fail_all(on),
            Sc::TryWith(combo, fallible, ok) => {
                d.force_tw = Some((combo, fallible, ok));
                d.op_try_with(0);
            }
        }
        d.check_contents();
    }
    track::clear_faults();
    d.begin("drop");
    let b = d.bump.take().unwrap();
    let r = guarded(move || drop(b));
    match r {
        Ok(()) => d.end("drop", &Res::Unit),
        Err(p) => d.end("drop", &p),
    }
    d.line("E");
}

fn scenarios(seed: u64) {
    fn all<const M: usize>(seed: u64, base: u64) {
        let a = M.max(1);
        // F1: with_capacity then reset (accounting)
        run_scenario::<M>(base, seed, 1, 1, &[Sc::Reset, Sc::Alloc(8 * a, a, 1), Sc::Reset]);
        run_scenario::<M>(base + 1, seed, 1, 4032, &[Sc::Alloc(4096, 128, 0), Sc::Reset, Sc::Reset]);
        // F2: a failing initialiser whose slot forces a chunk (first chunk, and a later one)
        run_scenario::<M>(base + 2, seed, 0, 0, &[Sc::TryWith(0, false, false), Sc::TryWith(0, true, false), Sc::Alloc(100, 1, 1)]);
        run_scenario::<M>(base + 3, seed, 1, 64, &[Sc::Alloc(40, a, 1), Sc::TryWith(4, true, false), Sc::TryWith(1, false, false), Sc::Reset]);
        // F3 / F9: zero-sized requests on an arena that holds nothing (alignment, stores to the static)
        run_scenario::<M>(base + 4, seed, 0, 0, &[Sc::Alloc(0, 1, 0), Sc::Alloc(0, a, 1), Sc::Alloc(0, 8, 2), Sc::TryWith(3, true, false), Sc::Reset, Sc::Alloc(0, 1, 1)]);
        // F4: tiny limit, zero-sized over-aligned request: a zero-capacity chunk
        run_scenario::<M>(base + 5, seed, 0, 0, &[Sc::Limit(Some(10)), Sc::Alloc(0, 4096, 1), Sc::Alloc(0, 32, 1), Sc::Alloc(0, 64, 2), Sc::Reset]);
        // F5: tiny limit, nothing held, the global allocator refuses: the slow path must return
        // (the zero-sized request must be over-aligned, or the static empty chunk serves it)
        run_scenario::<M>(base + 6, seed, 0, 0, &[Sc::Limit(Some(100)), Sc::FailAll(true), Sc::Alloc(0, 4096, 1), Sc::Alloc(0, 8, 1), Sc::Alloc(5, 1, 1), Sc::FailAll(false), Sc::Alloc(5, 1, 1)]);
        run_scenario::<M>(base + 9, seed, 0, 0, &[Sc::Limit(Some(40)), Sc::FailAll(true), Sc::Alloc(0, 64, 2), Sc::FailAll(false), Sc::Alloc(0, 64, 1)]);
        run_scenario::<M>(base + 7, seed, 0, 0, &[Sc::Limit(Some(447)), Sc::FailAll(true), Sc::Alloc(0, 1, 2), Sc::FailAll(false)]);
        // F6: a limit set below what is already held
        run_scenario::<M>(base + 8, seed, 1, 17, &[Sc::Limit(Some(100)), Sc::Alloc(1000, 1, 1), Sc::Alloc(5000, 8, 2), Sc::Limit(Some(0)), Sc::Alloc(600, 1, 1)]);
    }
    all::<1>(seed, 900000);
    all::<4>(seed, 900100);
    all::<16>(seed, 900200);
}

// ---------------------------------------------------------------- C20: isolation differential
// One arena's history is run in a fresh process twice: alone, and surrounded by other arenas
// (created before, used between its operations on this and on another thread, driven into
// their limits and into allocator refusals, reset, dropped).  Everything the arena reports
// that does not depend on addresses must be identical.  Requests are aligned to 16 at most,
// so the behaviour does not depend on where the system allocator places the chunks.
fn noise(rng: &mut Rng, others: &mut Vec<Bump>) {
    match rng.below(8) {
        0 => {
            let b = Bump::new();
            b.set_allocation_limit(Some(*rng.pick(&[0usize, 100, 4096, 10000])));
            for _ in 0..6 {
                let _ = b.try_alloc_layout(Layout::from_size_align(600 + rng.usize_below(3000), 8).unwrap());
            }
            others.push(b);
        }
        1 => {
            let b = Bump::with_capacity(rng.usize_below(5000));
            for _ in 0..rng.usize_below(20) {
                b.alloc_layout(Layout::from_size_align(rng.usize_below(900), 1 << rng.below(5)).unwrap());
            }
            others.push(b);
        }
        2 => {
            // the global allocator refuses this arena's chunks
            let b = Bump::new();
            track::recorded(|| {
                track::set_fail_all(true);
                for _ in 0..4 {
                    let _ = b.try_alloc_layout(Layout::from_size_align(100 + rng.usize_below(100000), 8).unwrap());
                }
                track::clear_faults();
            });
            others.push(b);
        }
        3 => {
            if let Some(b) = others.last_mut() {
                b.reset();
            }
        }
        4 => {
            if !others.is_empty() {
                let i = rng.usize_below(others.len());
                drop(others.swap_remove(i));
            }
        }
        5 => {
            // an arena living entirely on another thread, and one handed over to it
            let seed = rng.next();
            let moved = others.pop();
            std::thread::spawn(move || {
                let mut r = Rng::new(seed);
                let b = Bump::new();
                b.set_allocation_limit(Some(3000));
                for _ in 0..30 {
                    let _ = b.try_alloc_layout(Layout::from_size_align(1 + r.usize_below(2000), 8).unwrap());
                }
                if let Some(m) = moved {
                    let _ = m.try_alloc(1u64);
                    drop(m);
                }
            })
            .join()
            .unwrap();
        }
        6 => {
            // the shared call sites of the collections, with long and short arguments
            let b = Bump::new();
            let _ = fmt_site(&b, *rng.pick(&[0usize, 3, 500, 100000]), rng.next() % 100);
            others.push(b);
        }
        _ => {
            for b in others.iter() {
                let _ = b.try_alloc_layout(Layout::from_size_align(1 + rng.usize_below(5000), 16).unwrap());
            }
        }
    }
}

/// one call site shared by every arena of the process (C20: nothing it does for one arena may
/// depend on what it did for another)
fn fmt_site(b: &Bump, label_len: usize, n: u64) -> (usize, usize) {
    let label: String = std::iter::repeat('x').take(label_len).collect();
    let s = bumpalo::format!(in b, "{}-{}", label, n);
    let mut v = bumpalo::collections::Vec::new_in(b);
    for i in 0..(n % 7) { v.push(i); }
    let t = bumpalo::collections::String::from_str_in(&label, b);
    (s.capacity() + 1000 * v.capacity() + 1_000_000 * t.capacity(), s.len())
}

fn iso_one<const M: usize>(seed: u64, hid: u64, with_noise: bool) {
    let mut rng = Rng::new(seed ^ hid.wrapping_mul(0xD6E8FEB86659FD93) ^ 0x150);
    let mut nrng = Rng::new(seed ^ hid ^ 0xBADC0FFE);
    let mut others: Vec<Bump> = Vec::new();
    if with_noise {
        for _ in 0..12 {
            noise(&mut nrng, &mut others);
        }
    }
    let mut out = String::new();
    let cap = *rng.pick(&[0usize, 0, 100, 5000]);
    let mark = track::log_len();
    let y: Bump<M> = track::recorded(|| if cap == 0 { Bump::<M>::with_min_align() } else { Bump::<M>::with_min_align_and_capacity(cap) });
    let mut mark = { let m2 = track::log_len(); let _ = mark; m2 };
    let nops = 30 + rng.usize_below(40);
    let mut y = y;
    for i in 0..nops {
        if with_noise && nrng.chance(1, 2) {
            noise(&mut nrng, &mut others);
            mark = track::log_len();
        }
        let r = rng.below(100);
        let (desc, res): (String, String) = if r < 70 {
            let big = rng.chance(1, 6);
            let size = if big { rng.usize_below(70000) } else { rng.usize_below(1500) };
            let lay = Layout::from_size_align(size, 1 << rng.below(5)).unwrap();
            let ok = track::recorded(|| y.try_alloc_layout(lay).is_ok());
            (format!("alloc {} {}", lay.size(), lay.align()), if ok { "ok".into() } else { "err".into() })
        } else if r < 80 {
            track::recorded(|| y.reset());
            ("reset".into(), "unit".into())
        } else if r < 90 {
            let l = if rng.chance(1, 3) { None } else { Some(rng.usize_below(200000)) };
            y.set_allocation_limit(l);
            (format!("limit {:?}", l), "unit".into())
        } else if r < 95 || M != 1 {
            let ok = track::recorded(|| y.try_alloc_try_with(|| if rng.chance(1, 2) { Ok(7u64) } else { Err(()) }).is_ok());
            ("try_with".into(), if ok { "ok".into() } else { "err".into() })
        } else {
            // the collections' shared call sites on this arena (no limit may be in the way: it panics on OOM)
            y.set_allocation_limit(None);
            let ll = rng.usize_below(40);
            let n = rng.next() % 100;
            let yb: &Bump = unsafe { &*(&y as *const Bump<M> as *const Bump) };
            let (caps, len) = track::recorded(|| fmt_site(yb, ll, n));
            (format!("fmt_site {} {}", ll, n), format!("caps={} len={}", caps, len))
        };
        let ev = track::events(mark, track::log_len());
        mark = track::log_len();
        let reqs: Vec<String> = ev.iter().map(|e| format!("{:?}:{}:{}:{}", e.kind, e.size, e.align, (e.addr != 0) as u8)).collect();
        let chunks: Vec<String> = unsafe { y.iter_allocated_chunks_raw() }.map(|(_, n)| n.to_string()).collect();
        out.push_str(&format!("Y {} {} {} reqs=[{}] ab={} abim={} cap={} chunks=[{}]\n", i, desc, res, reqs.join(","), y.allocated_bytes(), y.allocated_bytes_including_metadata(), y.chunk_capacity(), chunks.join(",")));
    }
    drop(y);
    drop(others);
    print!("{}", out);
}

fn iso(seed: u64, count: u64, first: u64) {
    let exe = std::env::current_exe().unwrap();
    for hid in first..first + count {
        let run = |noise: &str| -> String {
            let o = std::process::Command::new(&exe).args(["isoone", &seed.to_string(), &hid.to_string(), noise]).output();
            match o {
                Ok(o) => format!("{}exit={:?}\n", String::from_utf8_lossy(&o.stdout), o.status.code()),
                Err(e) => format!("spawn failed {:?}\n", e),
            }
        };
        let a = run("0");
        let b = run("1");
        if a == b {
            println!("I hid={} seed={} same lines={}", hid, seed, a.lines().count());
        } else {
            let d = a.lines().zip(b.lines()).find(|(x, y)| x != y);
            let (x, y) = d.unwrap_or(("<length differs>", "<length differs>"));
            println!("I hid={} seed={} diff alone=[{}] with_others=[{}]", hid, seed, x.replace(' ', "_"), y.replace(' ', "_"));
        }
    }
}

/// slices of zero-sized elements: every fill helper still calls its closure once per element in index
/// order, consumes its iterator, clones / defaults once per element, and returns a slice of that length
fn zst_fill_probe() {
    use std::cell::Cell;
    thread_local! { static MADE: Cell<usize> = Cell::new(0); }
    #[derive(Debug)]
    struct Z;
    impl Clone for Z { fn clone(&self) -> Z { MADE.with(|m| m.set(m.get() + 1)); Z } }
    impl Default for Z { fn default() -> Z { MADE.with(|m| m.set(m.get() + 1)); Z } }
    let b = Bump::new();
    for n in [0usize, 1, 2, 7] {
        let mut bad: Vec<String> = Vec::new();
        let mut calls = Vec::new();
        let s = b.alloc_slice_fill_with(n, |i| { calls.push(i); Z });
        if s.len() != n || !calls.iter().copied().eq(0..n) { bad.push(format!("alloc_slice_fill_with calls={:?}", calls)); }
        let mut calls = Vec::new();
        let s = b.try_alloc_slice_fill_with(n, |i| { calls.push(i); Z }).unwrap();
        if s.len() != n || !calls.iter().copied().eq(0..n) { bad.push(format!("try_alloc_slice_fill_with calls={:?}", calls)); }
        let mut calls = Vec::new();
        let s = b.alloc_slice_try_fill_with(n, |i| { calls.push(i); Ok::<Z, ()>(Z) }).unwrap();
        if s.len() != n || !calls.iter().copied().eq(0..n) { bad.push(format!("alloc_slice_try_fill_with calls={:?}", calls)); }
        let mut taken = 0usize;
        let s = b.alloc_slice_fill_iter((0..n).map(|_| { taken += 1; Z }));
        if s.len() != n || taken != n { bad.push(format!("alloc_slice_fill_iter taken={}", taken)); }
        let mut taken = 0usize;
        let s = b.try_alloc_slice_fill_iter((0..n).map(|_| { taken += 1; Z })).unwrap();
        if s.len() != n || taken != n { bad.push(format!("try_alloc_slice_fill_iter taken={}", taken)); }
        let mut taken = 0usize;
        let s = b.alloc_slice_try_fill_iter((0..n).map(|_| { taken += 1; Ok::<Z, ()>(Z) })).unwrap();
        if s.len() != n || taken != n { bad.push(format!("alloc_slice_try_fill_iter taken={}", taken)); }
        MADE.with(|m| m.set(0));
        let s = b.alloc_slice_fill_clone(n, &Z);
        if s.len() != n || MADE.with(|m| m.get()) != n { bad.push(format!("alloc_slice_fill_clone clones={}", MADE.with(|m| m.get()))); }
        MADE.with(|m| m.set(0));
        let s = b.alloc_slice_fill_default::<Z>(n);
        if s.len() != n || MADE.with(|m| m.get()) != n { bad.push(format!("alloc_slice_fill_default defaults={}", MADE.with(|m| m.get()))); }
        MADE.with(|m| m.set(0));
        let src: Vec<Z> = (0..n).map(|_| Z).collect();
        let s = b.alloc_slice_clone(&src);
        if s.len() != n || MADE.with(|m| m.get()) != n { bad.push(format!("alloc_slice_clone clones={}", MADE.with(|m| m.get()))); }
        let mut made = 0usize;
        let r = b.alloc_with(|| { made += 1; Z });
        let _ = r;
        if made != 1 { bad.push(format!("alloc_with calls={}", made)); }
        for what in bad {
            println!("K zero-sized fill of {} elements: bad call order or count in {}", n, what.replace(' ', "_"));
        }
    }
}

/// with_min_align & friends for supported and unsupported MIN_ALIGN values:
/// one `T` line each (did it panic, how many chunk requests were made)
fn ctor_tests() {
    fn one<const M: usize>() {
        let c = bumpalo::verif_hooks::consts();
        for (how, cap) in [(0usize, 0usize), (1, 0), (1, 100), (2, 0), (2, 100), (3, 0), (4, 0)] {
            track::reset_log();
            let r = guarded(|| match how {
                0 => drop(Bump::<M>::with_min_align()),
                1 => drop(Bump::<M>::with_min_align_and_capacity(cap)),
                2 => drop(Bump::<M>::try_with_min_align_and_capacity(cap)),
                // the Default impl, directly and through mem::take on a holder that derives Default
                3 => drop(<Bump<M> as Default>::default()),
                _ => {
                    #[derive(Default)]
                    struct Holder<const N: usize> { arena: Bump<N>, _n: u32 }
                    let h: Holder<M> = Default::default();
                    drop(h.arena)
                }
            });
            let reqs = track::events(0, track::log_len()).iter().filter(|e| e.kind == Kind::Alloc).count();
            let res = match r { Ok(()) => "ok".to_string(), Err(p) => p.show() };
            println!("T malign={} how={} cap={} res={} reqs={} consts={},{},{},{},{},{},{}", M, how, cap, res, reqs, c[0], c[1], c[2], c[3], c[4], c[5], c[6]);
        }
    }
    one::<0>(); one::<1>(); one::<2>(); one::<3>(); one::<4>(); one::<5>(); one::<6>(); one::<7>(); one::<8>();
    one::<12>(); one::<16>(); one::<17>(); one::<24>(); one::<32>(); one::<64>(); one::<4096>();
}

fn main() {
    if std::env::args().nth(1).as_deref() != Some("isoone") {
        std::panic::set_hook(Box::new(|_| {}));
    }
    bumpalo::verif_hooks::set_on_store(Some(on_store));
    let args: Vec<String> = std::env::args().collect();
    match args.get(1).map(|s| s.as_str()) {
        Some("consts") => {
            let c = bumpalo::verif_hooks::consts();
            println!("{} {} {} {} {} {} {} {}", c[0], c[1], c[2], c[3], c[4], c[5], c[6], c[7]);
        }
        Some("gen") => {
            let seed: u64 = args[2].parse().unwrap();
            let count: u64 = args[3].parse().unwrap();
            let maxops: usize = args.get(4).map(|s| s.parse().unwrap()).unwrap_or(60);
            let first: u64 = args.get(5).map(|s| s.parse().unwrap()).unwrap_or(0);
            if first == 0 {
                ctor_tests();
                zst_fill_probe();
                scenarios(seed);
                // C20: isolation differential in fresh processes (shard 0 only)
                iso(seed, if maxops > 100 { 120 } else { 24 }, 0);
            }
            for hid in first..first + count {
                let plan = Plan { seed, hid, maxops };
                let mut r = Rng::new(seed ^ hid.wrapping_mul(0x2545F4914F6CDD1D));
                match r.below(5) {
                    0 => run_history::<1>(&plan),
                    1 => run_history::<2>(&plan),
                    2 => run_history::<4>(&plan),
                    3 => run_history::<8>(&plan),
                    _ => run_history::<16>(&plan),
                }
            }
        }
        Some("isoone") => {
            let seed: u64 = args[2].parse().unwrap();
            let hid: u64 = args[3].parse().unwrap();
            let noise = args[4] == "1";
            if hid % 2 == 0 { iso_one::<1>(seed, hid, noise) } else { iso_one::<8>(seed, hid, noise) }
        }
        Some("scenarios") => scenarios(args.get(2).map(|s| s.parse().unwrap()).unwrap_or(1)),
        Some("iso") => {
            iso(args[2].parse().unwrap(), args[3].parse().unwrap(), args.get(4).map(|s| s.parse().unwrap()).unwrap_or(0));
        }
        _ => {
            eprintln!("usage: arena_driver gen <seed> <count> [maxops] [first] | consts");
            std::process::exit(2);
        }
    }
}
