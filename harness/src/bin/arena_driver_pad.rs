// The same driver with one extra relocated word in front of the crate's statics,
// so that a static of alignment 8 in the crate lands on the other residue mod 16
// (used to exhibit alignment assumptions about the static EMPTY_CHUNK).
#[used]
#[no_mangle]
pub static BV_PAD: &u8 = &7;
include!("arena_driver.rs");
