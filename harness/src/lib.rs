pub mod rng;
pub mod track;
