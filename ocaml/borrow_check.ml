(* borrow_check: reads the compile-probe trace of tools/borrow_probe.py (one
   client program per history with rustc's verdict) and compares it with the
   extracted Borrow model: accepts actual_facts st0 p and drun dyn0 p.  Glue only. *)
open Model

let rec nat_of_int n = if n <= 0 then O else S (nat_of_int (n - 1))
let split_ws s = List.filter (fun x -> x <> "") (String.split_on_char ' ' s)

let mismatches = ref 0
let specs = ref 0
let hid = ref ""
let header = ref ""
let cur = ref ""
let report_mismatch ~field ~model ~impl =
  incr mismatches;
  Printf.printf "MISMATCH hid=%s op=0 who=borrowmodel field=%s model=%s impl=%s desc=[%s] hdr=[%s]\n" !hid field model impl !cur !header
let report_spec ~prop ~pred ~detail =
  incr specs;
  Printf.printf "SPEC hid=%s op=0 prop=%s pred=%s detail=%s desc=[%s] hdr=[%s]\n" !hid prop pred detail !cur !header
let histo : (string, int) Hashtbl.t = Hashtbl.create 64
let bump_count key = Hashtbl.replace histo key (1 + (try Hashtbl.find histo key with Not_found -> 0))

let xc_seen = ref 0
let rec int_of_nat = function O -> 0 | S n -> 1 + int_of_nat n
let coq_stmt = function
  | SAlloc r -> Printf.sprintf "SAlloc %d" (int_of_nat r) | SUse r -> Printf.sprintf "SUse %d" (int_of_nat r)
  | SReset -> "SReset" | SIterBegin i -> Printf.sprintf "SIterBegin %d" (int_of_nat i)
  | SIterUse i -> Printf.sprintf "SIterUse %d" (int_of_nat i) | SDropArena -> "SDropArena" | SMoveArena -> "SMoveArena"
  | SSpawnShare -> "SSpawnShare" | SSpawnMove -> "SSpawnMove" | SSpawnRef r -> Printf.sprintf "SSpawnRef %d" (int_of_nat r)
let xc p acc safe =
  incr xc_seen;
  if !xc_seen mod 401 = 1 && !xc_seen < 401 * 60 then begin
    let l = "[" ^ String.concat "; " (List.map coq_stmt p) ^ "]" in
    Printf.printf "XC (accepts actual_facts st0 %s, drun dyn0 %s) === (%b, %b)\n" l l acc safe end
let stmt_of tok =
  let num () = nat_of_int (int_of_string (String.sub tok 1 (String.length tok - 1))) in
  match tok.[0] with
  | 'A' -> SAlloc (num ())
  | 'U' -> SUse (num ())
  | 'R' -> SReset
  | 'I' -> SIterBegin (num ())
  | 'J' -> SIterUse (num ())
  | 'D' -> SDropArena
  | 'M' -> SMoveArena
  | 'S' -> SSpawnShare
  | 'T' -> SSpawnMove
  | 'X' -> SSpawnRef (num ())
  | _ -> failwith ("bad token " ^ tok)

let ideal = { f_alloc_shared = true; f_reset_excl = true; f_iter_excl = true; f_send = true; f_sync = false; f_coll_send = false }
let only_alloc_use p = List.for_all (function SAlloc _ | SUse _ -> true | _ -> false) p
let yn b = if b then "ok" else "err"

let () =
  let histories = ref 0 and accepted = ref 0 and rejected = ref 0 in
  let samples = ref [] in
  (try
     while true do
       let line = input_line stdin in
       if String.length line = 0 then ()
       else match line.[0] with
         | 'H' ->
           let kv = List.filter_map (fun it -> match String.index_opt it '=' with
               | Some i -> Some (String.sub it 0 i, String.sub it (i + 1) (String.length it - i - 1)) | None -> None) (split_ws line) in
           hid := List.assoc "id" kv; header := String.trim line
         | 'P' ->
           (* P kind verdict | tokens *)
           let secs = List.map String.trim (String.split_on_char '|' line) in
           (match split_ws (List.nth secs 0), split_ws (List.nth secs 1) with
            | [_; kind; verdict], toks ->
              incr histories;
              let srct = (match secs with [_; _; s] -> split_ws s | _ -> toks) in
              cur := kind ^ ":" ^ String.concat "," srct;
              let p = List.map stmt_of toks in
              let acc = accepts actual_facts st0 p and safe = drun dyn0 p in
              xc p acc safe;
              bump_count ("kind_" ^ kind);
              bump_count ("len_" ^ string_of_int (List.length toks));
              if verdict = "ok" then incr accepted else incr rejected;
              bump_count (if safe then "safe_programs" else "misusing_programs");
              if verdict = "ok" && not safe then
                report_spec ~prop:"C05" ~pred:"compiler_accepts_misuse" ~detail:!cur
              else if verdict <> "ok" && only_alloc_use p && accepts ideal st0 p then
                report_spec ~prop:"C05" ~pred:"ordinary_pattern_rejected" ~detail:!cur
              else if (verdict = "ok") <> acc then
                report_mismatch ~field:"accepts" ~model:(yn acc) ~impl:verdict;
              if List.length !samples < 3 && verdict = "ok" && List.length toks >= 3 then samples := !cur :: !samples
            | _ -> ())
         | 'Q' ->
           (* Q name verdict *)
           (match split_ws line with
            | [_; name; verdict] ->
              incr histories; cur := "trait:" ^ name; bump_count "trait_queries";
              let q = match name with
                | "bump_send" -> Some QBumpSend | "bump_sync" -> Some QBumpSync
                | "ref_bump_send" -> Some QRefBumpSend
                | "vec_send" | "string_send" -> Some QCollSend | _ -> None in
              (match q with
               | Some q ->
                 let m = trait_holds actual_facts q in
                 if verdict = "ok" && q <> QBumpSend then
                   report_spec ~prop:"C05" ~pred:"thread_safety_bound_missing" ~detail:name
                 else if verdict <> "ok" && q = QBumpSend then
                   report_spec ~prop:"C05" ~pred:"ordinary_pattern_rejected" ~detail:name
                 else if (verdict = "ok") <> m then report_mismatch ~field:"trait" ~model:(yn m) ~impl:verdict
               | None -> ())
            | _ -> ())
         | 'O' ->
           (* O name verdict : ordinary patterns outside the calculus, must compile *)
           (match split_ws line with
            | [_; name; verdict] ->
              incr histories; cur := "ordinary:" ^ name; bump_count "ordinary_probes";
              if verdict <> "ok" then report_spec ~prop:"C05" ~pred:"ordinary_pattern_rejected" ~detail:name
            | _ -> ())
         | 'N' ->
           (* N name verdict : negative probes outside the calculus, must not compile *)
           (match split_ws line with
            | [_; name; verdict] ->
              incr histories; cur := "negative:" ^ name; bump_count "negative_probes";
              if verdict = "ok" then report_spec ~prop:"C05" ~pred:"compiler_accepts_misuse" ~detail:name
            | _ -> ())
         | _ -> ()
     done
   with End_of_file -> ());
  let hs = Hashtbl.fold (fun k v acc -> Printf.sprintf "\"%s\":%d" k v :: acc) histo [] in
  Printf.printf "SUMMARY {\"histories\":%d,\"ops\":%d,\"accepted\":%d,\"rejected\":%d,\"mismatches\":%d,\"spec_failures\":%d,\"distinct_nontrivial\":%d,\"histogram\":{%s},\"samples\":[%s]}\n"
    !histories !histories !accepted !rejected !mismatches !specs !histories
    (String.concat "," (List.sort compare hs))
    (String.concat "," (List.map (fun s -> "\"" ^ String.escaped s ^ "\"") !samples))
