(* arena_check: reads traces written by harness/arena_driver on stdin, steps the
   extracted Coq model (Model = coq/Extract.v) through the same operations and
   reports
     MISMATCH ...  model and implementation differ on an observable
     SPEC ...      an extracted spec predicate (ArenaSpec.v) fails on the
                   implementation's own observations
   plus a SUMMARY line with counts.  Glue only: all decisions are taken by
   extracted definitions; this file converts numbers and compares. *)
open Model

(* ---------- number conversion (glue) ---------- *)
let rec pos_of_z (z : Z.t) : positive =
  if Z.equal z Z.one then XH
  else if Z.testbit z 0 then XI (pos_of_z (Z.shift_right z 1))
  else XO (pos_of_z (Z.shift_right z 1))
let n_of_z z = if Z.sign z <= 0 then N0 else Npos (pos_of_z z)
let rec z_of_pos = function
  | XH -> Z.one
  | XO p -> Z.shift_left (z_of_pos p) 1
  | XI p -> Z.succ (Z.shift_left (z_of_pos p) 1)
let z_of_n = function N0 -> Z.zero | Npos p -> z_of_pos p
let n_of_string s = n_of_z (Z.of_string s)
let string_of_n n = Z.to_string (z_of_n n)
let n_of_int i = n_of_z (Z.of_int i)
let rec nat_to_int = function O -> 0 | S n -> 1 + nat_to_int n

let neq a b = N.eqb a b

(* ---------- parsing ---------- *)
let split_ws s = List.filter (fun x -> x <> "") (String.split_on_char ' ' s)
let split_on c s = String.split_on_char c s

type iop = { kind : string; args : string list }

type obs = {
  reqs : (n * n * n option) list;   (* size, align, answer *)
  frees : ((n * n) * n) list;
  stores : n list;
  ires : string;
  iab : n; iabim : n; icap : n; ilimit : n option;
  ichunks : (n * n) list;
}

let parse_obs (secs : string list) : obs =
  let sec i = try List.nth secs i with _ -> "" in
  let reqs = List.map (fun it ->
      match split_on ':' it with
      | [s; a; ad] -> (n_of_string s, n_of_string a, (if ad = "0" then None else Some (n_of_string ad)))
      | _ -> failwith ("bad req item " ^ it)) (split_ws (sec 1)) in
  let frees = List.map (fun it ->
      match split_on ':' it with
      | [ad; s; a] -> ((n_of_string ad, n_of_string s), n_of_string a)
      | _ -> failwith ("bad free item " ^ it)) (split_ws (sec 2)) in
  let stores = List.map n_of_string (split_ws (sec 3)) in
  let ires = String.trim (sec 4) in
  let (iab, iabim, icap, ilimit) =
    match split_ws (sec 5) with
    | [a; b; c; l] -> (n_of_string a, n_of_string b, n_of_string c, (if l = "-" then None else Some (n_of_string l)))
    | _ -> failwith "bad query section" in
  let ichunks = List.map (fun it ->
      match split_on ':' it with
      | [p; l] -> (n_of_string p, n_of_string l)
      | _ -> failwith "bad chunk item") (split_ws (sec 6)) in
  { reqs; frees; stores; ires; iab; iabim; icap; ilimit; ichunks }

(* ---------- reporting ---------- *)
let mismatches = ref 0
let specs = ref 0
let hid = ref ""
let opno = ref 0
let cur_desc = ref ""
let header = ref ""

let seen_reports : (string, unit) Hashtbl.t = Hashtbl.create 64
let desynced = ref false
(* only the first report of each class per history is printed: later ones are
   usually consequences *)
let first key = if Hashtbl.mem seen_reports key then false else (Hashtbl.replace seen_reports key (); true)

let report_mismatch ~who ~field ~model ~impl =
  if who = "follow" then desynced := true;
  if first (!hid ^ "/M/" ^ who) then begin
  incr mismatches;
  Printf.printf "MISMATCH hid=%s op=%d who=%s field=%s model=%s impl=%s desc=[%s] hdr=[%s]\n"
    !hid !opno who field model impl !cur_desc !header end

let report_spec ~prop ~pred ~detail =
  if first (!hid ^ "/S/" ^ prop ^ pred) then begin
  incr specs;
  Printf.printf "SPEC hid=%s op=%d prop=%s pred=%s detail=%s desc=[%s] hdr=[%s]\n"
    !hid !opno prop pred detail !cur_desc !header end

let show_res = function
  | ROk p -> "ok:" ^ string_of_n p
  | RUnit -> "unit"
  | RErr -> "err"
  | RBad w -> "bad:" ^ string_of_n w
let show_list f l = "[" ^ String.concat "," (List.map f l) ^ "]"
let show_g ((a, s), al) = string_of_n a ^ ":" ^ string_of_n s ^ ":" ^ string_of_n al
let show_pair (a, b) = string_of_n a ^ ":" ^ string_of_n b

(* ---------- counters for the evidence file ---------- *)
let histo : (string, int) Hashtbl.t = Hashtbl.create 64
let bump_count key = Hashtbl.replace histo key (1 + (try Hashtbl.find histo key with Not_found -> 0))
let histories = ref 0
let ops_total = ref 0
let nontrivial : (int, unit) Hashtbl.t = Hashtbl.create 1024
let samples : string list ref = ref []

(* ---------- per-history state ---------- *)
type hist = {
  k : cfg;
  mutable b : bump;
  mutable held : ((n * n) * n) list;       (* implementation side, newest first *)
  mutable live : (n * n) list;             (* implementation side *)
  mutable p_ab : n; mutable p_abim : n; mutable p_cap : n;
  mutable p_chunks : (n * n) list;
  mutable feat : string list;
  mutable sig_ : Buffer.t;
  mutable tw_sizes : n list;               (* sizes of pending try_with slots *)
  mutable tw_aligns : n list;              (* and their alignments *)
  mutable tw_slots : (n * n) list;         (* implementation side: (address, size) of pending slots *)
  mutable dead : bool;
  mutable born_in_init : (n * n) list list; (* per pending initialiser: blocks allocated while it ran *)
  mutable init_kept : (n * n) list;        (* blocks a failed initialiser allocated and kept *)
  uniform : n;                             (* 0, or the one alignment of a uniform history *)
  mutable ubytes : n;                      (* uniform history: bytes allocated since the last reset *)
  mutable lim_sane : bool;                 (* the limit in force was not set below what was then held *)
  mutable generous : bool;                 (* so far every chunk was obtained at the first attempt with no limit in force *)
}

let xc_seen = ref 0
let neq_zero (x : n) = (match x with N0 -> false | _ -> true)

let kv_of s =
  List.fold_left (fun acc it ->
      match String.index_opt it '=' with
      | Some i -> (String.sub it 0 i, String.sub it (i + 1) (String.length it - i - 1)) :: acc
      | None -> acc) [] (split_ws s)

let new_hist (line : string) : hist =
  let kv = kv_of line in
  let get x = List.assoc x kv in
  hid := get "id";
  desynced := false;
  header := String.trim line;
  let c = List.map n_of_string (split_on ',' (get "consts")) in
  let nth i = List.nth c i in
  let k = { k_footer = nth 0; k_calign = nth 2; k_overhead = nth 3; k_default = nth 4;
            k_page = nth 5; k_malign = n_of_string (get "malign"); k_eaddr = n_of_string (get "eaddr") } in
  if not (cfg_okb k) then
    report_spec ~prop:"C04" ~pred:"cfg_ok" ~detail:("the_static_EMPTY_CHUNK_or_the_constants_do_not_meet_cfg_ok:eaddr=" ^ get "eaddr" ^ "_malign=" ^ get "malign");
  { k; b = fresh; held = []; live = []; p_ab = N0; p_abim = N0; p_cap = N0; p_chunks = [];
    feat = []; sig_ = Buffer.create 256; tw_sizes = []; tw_aligns = []; tw_slots = []; dead = false; born_in_init = []; init_kept = [];
    uniform = (try n_of_string (get "uniform") with Not_found -> N0); ubytes = N0; generous = true; lim_sane = true }

let lay s a = { l_size = n_of_string s; l_align = n_of_string a }

let remove_live (p, s) live =
  let rec go = function
    | [] -> []
    | (p', s') :: t -> if neq p p' && neq s s' then t else (p', s') :: go t in
  go live

let feature h f = if not (List.mem f h.feat) then h.feat <- f :: h.feat

(* the operation of the model for a trace line; also whether it is fallible, the
   block that dies on success, and the (size, align) of the block born on success *)
type minfo = {
  mop : op;
  fallible : bool;
  dies : (n * n) option;
  born : (n * n) option;    (* size, align *)
}

let model_op (h : hist) (kind : string) (args : string list) : minfo option =
  match kind, args with
  | "cap", [c; f] ->
    Some { mop = OWithCapacity (n_of_string c); fallible = (f = "1"); dies = None; born = None }
  | "alloc", s :: a :: f :: _ ->
    Some { mop = OAlloc (lay s a); fallible = (f = "1"); dies = None; born = Some (n_of_string s, n_of_string a) }
  | "dealloc", [p; s; a] ->
    Some { mop = ODealloc (n_of_string p, lay s a); fallible = true; dies = Some (n_of_string p, n_of_string s); born = None }
  | "grow", [z; p; os; oa; ns; na] ->
    Some { mop = OGrow ((z = "1"), n_of_string p, lay os oa, lay ns na); fallible = true;
           dies = Some (n_of_string p, n_of_string os); born = Some (n_of_string ns, n_of_string na) }
  | "shrink", [p; os; oa; ns; na] ->
    Some { mop = OShrink (n_of_string p, lay os oa, lay ns na); fallible = true;
           dies = Some (n_of_string p, n_of_string os); born = Some (n_of_string ns, n_of_string na) }
  | "realloc", [p; s; a; n] ->
    let born_size = if s = "0" then N0 else n_of_string n in
    Some { mop = ORealloc (n_of_string p, lay s a, n_of_string n); fallible = true;
           dies = Some (n_of_string p, n_of_string s); born = Some (born_size, n_of_string a) }
  | "reset", [] -> Some { mop = OReset; fallible = true; dies = None; born = None }
  | "setlimit", [l] ->
    Some { mop = OSetLimit (if l = "-" then None else Some (n_of_string l)); fallible = true; dies = None; born = None }
  | "twbegin", [s; a; f] ->
    ignore h;
    Some { mop = OTwBegin (lay s a); fallible = (f = "1"); dies = None; born = None }
  | "twend", [ok] -> Some { mop = OTwEnd (ok = "1"); fallible = true; dies = None; born = None }
  | "drop", [] -> Some { mop = ODrop; fallible = true; dies = None; born = None }
  | _ -> None

let starts_with s p = String.length s >= String.length p && String.sub s 0 (String.length p) = p
let after_colon s = match String.index_opt s ':' with Some i -> String.sub s (i + 1) (String.length s - i - 1) | None -> ""

let handle_op (h : hist) (line : string) =
  let secs = split_on '|' line in
  let head = split_ws (List.hd secs) in
  let kind, args = match head with _ :: k :: a -> k, a | _ -> failwith "bad O line" in
  cur_desc := String.concat " " (kind :: args);
  incr opno; incr ops_total;
  bump_count ("op:" ^ kind);
  Buffer.add_string h.sig_ kind;
  (match args with s :: a :: _ when kind = "alloc" || kind = "twbegin" -> Buffer.add_string h.sig_ (s ^ "/" ^ a) | _ -> ());
  let o = parse_obs secs in
  match model_op h kind args with
  | None -> report_mismatch ~who:"driver" ~field:"parse" ~model:"-" ~impl:line
  | Some mi ->
    let k = h.k in
    let gl = List.map (fun (s, a, ans) -> { g_size = s; g_align = a; g_ans = ans }) o.reqs in
    let answers = List.map (fun (_, _, ans) -> ans) o.reqs in
    let b0 = h.b in
    let synced_at_start = not !desynced in
    let (b1, out) = step k (follow k gl) b0 mi.mop in
    let (_, outp) = step k (policy k answers) b0 mi.mop in
    (* ----- result class of the implementation ----- *)
    let ires = o.ires in
    let impl_ok = starts_with ires "ok:" || starts_with ires "entered:" in
    let impl_addr = if impl_ok then Some (n_of_string (after_colon ires)) else None in
    let impl_panic = starts_with ires "panic:" in
    let impl_oom = (ires = "panic:oom") in
    bump_count ("res:" ^ (if impl_ok then "ok" else if impl_panic then ires else ires));
    if o.reqs <> [] then (feature h "slow"; bump_count "feat:slowpath");
    if List.exists (fun (_, _, a) -> a = None) o.reqs then (feature h "refused"; bump_count "feat:refusal");
    if out.o_copies <> [] then (feature h "copy"; bump_count "feat:copy");
    (* ----- follow comparison ----- *)
    let cmp_res (who : string) (m : res) =
      let agree =
        match m with
        | ROk p ->
          (match kind, impl_addr with
           | "twend", Some a ->
             let sz = (match h.tw_sizes with s :: _ -> s | [] -> N0) in
             N.leb p a && N.leb a (N.add p sz)
           | _, Some a -> neq a p
           | _, None -> false)
        | RUnit -> ires = "unit"
        | RErr -> ires = "err" || ((not mi.fallible) && impl_oom)
        | RBad _ -> false in
      if not agree then report_mismatch ~who ~field:"res" ~model:(show_res m) ~impl:ires in
    if not !desynced then begin
    cmp_res "follow" out.o_res;
    let ireqs = List.map (fun (s, a, _) -> (s, a)) o.reqs in
    if out.o_reqs <> ireqs then
      report_mismatch ~who:"follow" ~field:"reqs" ~model:(show_list show_pair out.o_reqs) ~impl:(show_list show_pair ireqs);
    if out.o_frees <> o.frees then
      report_mismatch ~who:"follow" ~field:"frees" ~model:(show_list show_g out.o_frees) ~impl:(show_list show_g o.frees);
    if out.o_stores <> o.stores then
      report_mismatch ~who:"follow" ~field:"stores" ~model:(show_list string_of_n out.o_stores) ~impl:(show_list string_of_n o.stores);
    let m_ab = q_allocated_bytes b1 and m_abim = q_allocated_bytes_incl k b1
    and m_cap = q_chunk_capacity k b1 and m_chunks = q_iter_chunks b1 in
    if not (neq m_ab o.iab) then report_mismatch ~who:"follow" ~field:"ab" ~model:(string_of_n m_ab) ~impl:(string_of_n o.iab);
    if not (neq m_abim o.iabim) then report_mismatch ~who:"follow" ~field:"abim" ~model:(string_of_n m_abim) ~impl:(string_of_n o.iabim);
    if not (neq m_cap o.icap) then report_mismatch ~who:"follow" ~field:"cap" ~model:(string_of_n m_cap) ~impl:(string_of_n o.icap);
    if m_chunks <> o.ichunks then
      report_mismatch ~who:"follow" ~field:"chunks" ~model:(show_list show_pair m_chunks) ~impl:(show_list show_pair o.ichunks);
    if b1.limit <> o.ilimit && kind <> "drop" then
      report_mismatch ~who:"follow" ~field:"limit" ~model:"?" ~impl:"?";
    List.iter (fun f -> report_mismatch ~who:"follow" ~field:("flag" ^ string_of_n f) ~model:"flag" ~impl:"-")
      (List.filter (fun f -> neq f fLAG_LIMIT_EXCEEDED) out.o_flags);
    (* ----- policy comparison: requests and outcome predicted from answers only ----- *)
    if outp.o_reqs <> ireqs then
      report_mismatch ~who:"policy" ~field:"reqs" ~model:(show_list show_pair outp.o_reqs) ~impl:(show_list show_pair ireqs)
    else cmp_res "policy" outp.o_res
    end;
    (* ----- spec predicates on the implementation's observations ----- *)
    (* C09 / C19: a fallible call never panics; an infallible one panics only with oom *)
    if impl_panic && (mi.fallible || not impl_oom) then
      report_spec ~prop:"C09" ~pred:"no_panic" ~detail:ires;
    (* C19: a request no machine can satisfy (2^47 bytes and more: beyond the user address space the
       drivers run in and beyond what the tracking allocator ever grants) ends in an error or, for an
       infallible method, in a panic; it is never granted, and a fallible method does not panic over it *)
    (let req_size = (match kind, args with
         | "alloc", sz :: _ -> (try Some (Z.of_string sz) with _ -> None)
         | _ -> None) in
     match req_size with
     | Some sz when Z.geq sz (Z.shift_left Z.one 47) ->
       if impl_ok then report_spec ~prop:"C19" ~pred:"impossible_size_refused" ~detail:ires
       else if impl_panic && mi.fallible then report_spec ~prop:"C19" ~pred:"impossible_size_is_an_error_not_a_panic" ~detail:ires
     | _ -> ());
    (* C18: a new chunk is as large as the limit and the policy allow: the first size the
       implementation asks the global allocator for is not smaller than the first size the policy
       (doubling, the request, the default; halved only while the limit forbids) asks for *)
    (if synced_at_start then
       match outp.o_reqs, o.reqs with
       | (ps, _) :: _, (is, _, _) :: _ when N.ltb is ps ->
         report_spec ~prop:"C18" ~pred:"new_chunk_as_large_as_limit_and_policy_allow"
           ~detail:(Printf.sprintf "asked=%s policy=%s" (string_of_n is) (string_of_n ps))
       | _ -> ());
    (* C07, second clause: a request (allocation, grow, realloc) that fits in the space left in the
       current chunk succeeds whatever the limit: the model serves it without a request to the global
       allocator, the implementation (which made no request either) refuses it, and a limit is set *)
    if synced_at_start && (kind = "alloc" || kind = "grow" || kind = "realloc" || kind = "shrink")
       && (match outp.o_res with ROk _ -> true | _ -> false) && outp.o_reqs = [] && o.reqs = []
       && (not impl_ok) && b0.limit <> None then
      report_spec ~prop:"C07" ~pred:"fitting_request_succeeds_whatever_the_limit" ~detail:ires;
    (* C11: after a failed initialiser that allocated nothing, the same layout is served
       from the space that was reserved for it: no request to the global allocator *)
    if kind = "alloc" && List.mem "probe_c11" args && (o.reqs <> [] || not impl_ok) then
      report_spec ~prop:"C11" ~pred:"slot_reusable_without_request" ~detail:(ires ^ "_reqs=" ^ string_of_int (List.length o.reqs));
    (* C18: probes of chunk_capacity() and of the constructor's capacity must be served in place *)
    if kind = "alloc" && (List.mem "probe_c18" args || List.mem "probe_c18cap" args) && (o.reqs <> [] || not impl_ok) then
      report_spec ~prop:"C18" ~pred:(if List.mem "probe_c18" args then "capacity_not_overstated" else "constructor_capacity_honoured")
        ~detail:(ires ^ "_reqs=" ^ string_of_int (List.length o.reqs));
    (* sample for the extraction-independent cross-check: the fast path on the model state *)
    (match mi.mop with
     | OAlloc l ->
       incr xc_seen;
       if !xc_seen mod 211 = 1 && !xc_seen < 211 * 60 then begin
         let st = cur_start k b0 and pt = cur_ptr k b0 in
         let cfgs = Printf.sprintf "(mkCfg %s %s %s %s %s %s %s)" (string_of_n k.k_footer) (string_of_n k.k_calign) (string_of_n k.k_overhead)
             (string_of_n k.k_default) (string_of_n k.k_page) (string_of_n k.k_malign) (string_of_n k.k_eaddr) in
         Printf.printf "XC fast_ptr %s %s %s (mkLayout %s %s) === %s\n" cfgs (string_of_n st) (string_of_n pt)
           (string_of_n l.l_size) (string_of_n l.l_align)
           (match fast_ptr k st pt l with Some q -> "Some " ^ string_of_n q | None -> "None")
       end
     | _ -> ());
    (* C07: chunks obtained under a limit *)
    let lim_before = b0.limit in
    let ab_run = ref h.p_ab in
    List.iter (fun (s, _, ans) ->
        match ans with
        | Some _ ->
          if not (sp_limit_ok k lim_before !ab_run s) then
            report_spec ~prop:"C07" ~pred:"sp_limit_ok"
              ~detail:(Printf.sprintf "limit=%s held_for_alloc=%s chunk=%s"
                         (match lim_before with Some l -> string_of_n l | None -> "-") (string_of_n !ab_run) (string_of_n s));
          ab_run := N.add !ab_run (N.sub s k.k_footer)
        | None -> ()) o.reqs;
    (* C18: geometric growth.  A chunk obtained for an allocation at the very first attempt (no
       refusal before it), with no limit set, at least doubles the chunk that was current *)
    (match o.reqs, h.held, mi.born with
     | [(s, _, Some _)], ((_, prev), _) :: _, Some (rsize, _)
       when (kind = "alloc" || kind = "grow" || kind = "realloc" || kind = "shrink") && N.ltb prev (n_of_string "1099511627776") ->
       if not (sp_growth_ok k lim_before prev s rsize) then
         report_spec ~prop:"C18" ~pred:"sp_growth_ok"
           ~detail:(Printf.sprintf "prev_chunk=%s new_chunk=%s request=%s" (string_of_n prev) (string_of_n s) (string_of_n rsize))
     | _ -> ());
    (* C18, whole history: a chunk obtained under a limit, or after a refusal in the same operation,
       ends the "generous" regime of this history for good *)
    (let refused = ref false in
     List.iter (fun (_, _, ans) -> match ans with
         | None -> refused := true
         | Some _ -> if !refused || lim_before <> None then h.generous <- false) o.reqs);
    (* C03: frees *)
    if o.frees <> [] && kind <> "reset" && kind <> "drop" then
      report_spec ~prop:"C03" ~pred:"free_only_in_reset_drop" ~detail:(show_list show_g o.frees);
    let held_before = h.held in
    (match apply_frees o.frees h.held with
     | Some h' -> h.held <- h'
     | None -> report_spec ~prop:"C03" ~pred:"apply_frees" ~detail:(show_list show_g o.frees));
    List.iter (fun (s, a, ans) -> match ans with Some ad -> h.held <- ((ad, s), a) :: h.held | None -> ()) o.reqs;
    if h.generous && List.for_all (fun ((_, s), _) -> N.ltb s (n_of_string "1099511627776")) h.held then begin
      bump_count "chain_checks";
      if not (sp_chain_ok k (List.map (fun ((_, s), _) -> s) h.held)) then
        report_spec ~prop:"C18" ~pred:"sp_chain_ok" ~detail:(show_list (fun ((_, s), _) -> string_of_n s) h.held)
    end;
    if kind = "drop" && h.held <> [] then
      report_spec ~prop:"C03" ~pred:"drop_frees_all" ~detail:(show_list show_g h.held);
    if kind = "reset" then begin
      (match held_before, h.held with
       | [], [] -> ()
       | g :: _, [g'] when g = g' -> ()
       | _ -> report_spec ~prop:"C03" ~pred:"reset_keeps_newest" ~detail:(show_list show_g h.held));
      if not (sp_reset_ok k held_before h.held o.ichunks o.icap) then
        report_spec ~prop:"C06" ~pred:"sp_reset_ok" ~detail:(show_list show_pair o.ichunks ^ " cap=" ^ string_of_n o.icap);
      (* reset keeps the allocation limit *)
      if synced_at_start && o.ilimit <> b0.limit then
        report_spec ~prop:"C06" ~pred:"reset_keeps_limit"
          ~detail:(Printf.sprintf "before=%s after=%s" (match b0.limit with Some l -> string_of_n l | None -> "-") (match o.ilimit with Some l -> string_of_n l | None -> "-"))
    end;
    (* C08: accounting *)
    if kind <> "drop" && not (sp_accounting k h.held o.iab o.iabim) then
      report_spec ~prop:"C08" ~pred:"sp_accounting"
        ~detail:(Printf.sprintf "ab=%s abim=%s held=%s" (string_of_n o.iab) (string_of_n o.iabim) (show_list show_g h.held));
    (* C09: an error changes nothing *)
    if (ires = "err" || impl_oom) && kind <> "twend" then begin
      if h.held <> held_before || not (neq o.iab h.p_ab) || not (neq o.iabim h.p_abim)
         || not (neq o.icap h.p_cap) || o.ichunks <> h.p_chunks then
        report_spec ~prop:"C09" ~pred:"err_changes_nothing" ~detail:ires
    end;
    (* liveness bookkeeping + C01 / C04 on every block handed out *)
    if kind = "reset" || kind = "drop" then (h.live <- []; h.tw_slots <- []; h.tw_sizes <- []; h.tw_aligns <- []; h.born_in_init <- []; h.init_kept <- []);
    (match kind with
     | "dealloc" -> (match mi.dies with Some d -> h.live <- remove_live d h.live | None -> ())
     | "twbegin" -> if impl_ok then begin
         h.tw_sizes <- (match mi.mop with OTwBegin l -> l.l_size | _ -> N0) :: h.tw_sizes;
         h.tw_aligns <- (match mi.mop with OTwBegin l -> l.l_align | _ -> N0) :: h.tw_aligns
       end
     | _ -> ());
    let tw_done_ok = (if kind = "twend" && impl_ok then (match h.tw_sizes with sz :: _ -> Some sz | [] -> None) else None) in
    let via_allocator = (kind = "grow" || kind = "shrink" || (kind = "alloc" && List.mem "allocate" args)) in
    let overlaps (a, sa) (b, sb) =
      neq_zero sa && neq_zero sb && N.ltb a (N.add b sb) && N.ltb b (N.add a sa) in
    let check_block p size align =
      if not (sp_block_ok k h.held h.live p size) then begin
        report_spec ~prop:"C01" ~pred:"sp_block_ok" ~detail:(Printf.sprintf "p=%s size=%s" (string_of_n p) (string_of_n size));
        (* C11: a block that a failed initialiser allocated and kept is being handed out again *)
        if List.exists (fun kb -> List.mem kb h.live && overlaps kb (p, size)) h.init_kept then
          report_spec ~prop:"C11" ~pred:"kept_blocks_stay_valid" ~detail:(Printf.sprintf "p=%s size=%s" (string_of_n p) (string_of_n size));
        (* every block in these histories may have been through Allocator::{grow,shrink,deallocate} *)
        report_spec ~prop:"C12" ~pred:"block_fits_and_is_disjoint" ~detail:(Printf.sprintf "p=%s size=%s" (string_of_n p) (string_of_n size))
      end;
      if not (sp_aligned k p align) then begin
        report_spec ~prop:"C04" ~pred:"sp_aligned" ~detail:(Printf.sprintf "p=%s align=%s malign=%s" (string_of_n p) (string_of_n align) (string_of_n k.k_malign));
        if via_allocator then
          report_spec ~prop:"C12" ~pred:"block_aligned" ~detail:(Printf.sprintf "p=%s align=%s" (string_of_n p) (string_of_n align))
      end in
    (match kind, impl_addr, mi.born with
     | ("alloc" | "grow" | "shrink" | "realloc"), Some p, Some (size, align) ->
       (match mi.dies with Some d -> h.live <- remove_live d h.live | None -> ());
       check_block p size align;
       h.live <- (p, size) :: h.live;
       (match h.born_in_init with l :: rest -> h.born_in_init <- ((p, size) :: l) :: rest | [] -> ())
     | "twbegin", Some p, _ ->
       (match mi.mop with
        | OTwBegin l ->
          check_block p l.l_size l.l_align;
          (* the reserved slot is off limits for every other block from now on *)
          h.live <- (p, l.l_size) :: h.live;
          h.tw_slots <- (p, l.l_size) :: h.tw_slots;
          h.born_in_init <- [] :: h.born_in_init
        | _ -> ())
     | "twend", _, _ ->
       (match h.tw_sizes, h.tw_slots with
        | _ :: rest, slot :: srest ->
          h.tw_sizes <- rest; h.tw_slots <- srest; h.tw_aligns <- (match h.tw_aligns with _ :: r -> r | [] -> []);
          (* on Err the slot goes away; on Ok it stays the client's *)
          if not impl_ok then h.live <- remove_live slot h.live;
          (match h.born_in_init with
           | mine :: outer ->
             if not impl_ok then h.init_kept <- mine @ h.init_kept;
             h.born_in_init <- (match outer with o :: r -> (mine @ o) :: r | [] -> [])
           | [] -> ())
        | _ -> ())
     | _ -> ());
    (* C10, byte-exact clause, in uniform histories *)
    if neq_zero h.uniform then begin
      (match kind, impl_addr, mi.born with
       | "alloc", Some _, Some (size, _) -> h.ubytes <- N.add h.ubytes size
       | "reset", _, _ -> h.ubytes <- N0
       | _ -> ());
      (match tw_done_ok with Some sz -> h.ubytes <- N.add h.ubytes sz | None -> ());
      let pending = List.fold_left N.add N0 h.tw_sizes in
      (* while a slot aligned above the history's alignment is reserved (a Result<T, E> whose E is
         wider; such an initialiser always fails here), the arena is not uniform: padding may precede
         the slot. Once the initialiser has failed, the arena must be byte-exact again. *)
      let over_pending = List.exists (fun a -> N.ltb h.uniform a) h.tw_aligns in
      if over_pending then bump_count "feat:uniform_overaligned_result_pending";
      if kind <> "drop" && not over_pending && not (sp_iter_exact o.ichunks (N.add h.ubytes pending)) then
        report_spec ~prop:"C10" ~pred:"sp_iter_exact_uniform"
          ~detail:(Printf.sprintf "align=%s allocated=%s slices=%s" (string_of_n h.uniform) (string_of_n (N.add h.ubytes pending)) (show_list show_pair o.ichunks));
      bump_count "feat:uniform_op"
    end;
    (* C10: chunk iteration *)
    if kind <> "drop" && not (sp_iter_ok k h.held h.live o.ichunks) then
      report_spec ~prop:"C10" ~pred:"sp_iter_ok" ~detail:(show_list show_pair o.ichunks);
    (* C20: finger stores stay inside the arena's own chunks *)
    if not (sp_stores_owned k (if kind = "reset" then held_before else h.held) o.stores) then
      report_spec ~prop:"C20" ~pred:"sp_stores_owned" ~detail:(show_list string_of_n o.stores);
    (* features for the evidence *)
    (match kind with
     | "twend" when not impl_ok -> feature h "tw_err"; bump_count "feat:tw_err"
     | "reset" when List.length held_before > 1 -> feature h "reset_multi"; bump_count "feat:reset_multi"
     | _ -> ());
    if (ires = "err" || impl_oom) && b0.limit <> None && o.reqs = [] && kind = "alloc" then
      (feature h "limit_refusal"; bump_count "feat:limit_refusal");
    (* C07, whole history: while the limit in force was not set below what was then held, the bytes
       the implementation reports as held for allocation never exceed it *)
    (match mi.mop with
     | OSetLimit None -> h.lim_sane <- true
     | OSetLimit (Some l') -> h.lim_sane <- N.leb h.p_ab l'
     | OWithCapacity _ when b0.limit <> None -> h.lim_sane <- false
     | _ -> ());
    (match b1.limit with
     | Some l when h.lim_sane ->
       bump_count "limit_history_checks";
       if not (N.leb o.iab l) then
         report_spec ~prop:"C07" ~pred:"held_never_exceeds_limit"
           ~detail:(Printf.sprintf "limit=%s allocated_bytes=%s" (string_of_n l) (string_of_n o.iab))
     | _ -> ());
    h.b <- b1;
    h.p_ab <- o.iab; h.p_abim <- o.iabim; h.p_cap <- o.icap; h.p_chunks <- o.ichunks

let finish_hist (h : hist) =
  incr histories;
  if h.feat <> [] then Hashtbl.replace nontrivial (Hashtbl.hash (Buffer.contents h.sig_)) ();
  if List.length !samples < 3 && h.feat <> [] then samples := !header :: !samples

let () =
  let cur : hist option ref = ref None in
  let pending : string option ref = ref None in
  (try
     while true do
       let line = input_line stdin in
       if String.length line = 0 then ()
       else match line.[0] with
         | 'H' -> opno := 0; cur := Some (new_hist line); pending := None
         | 'B' -> pending := Some line
         | 'O' -> pending := None; (match !cur with Some h -> (try handle_op h line with Failure m -> report_mismatch ~who:"driver" ~field:"exception" ~model:m ~impl:line) | None -> ())
         | 'C' ->
           if starts_with line "C bad" then begin
             report_spec ~prop:"C02" ~pred:"contents_intact" ~detail:(String.map (fun c -> if c = ' ' then '_' else c) line);
             report_spec ~prop:"C12" ~pred:"contents_preserved" ~detail:(String.map (fun c -> if c = ' ' then '_' else c) line)
           end
           else bump_count "content_checks"
         | 'K' when (try ignore (Str.search_forward (Str.regexp "chunk iterators") line 0); true with Not_found -> false) ->
           report_spec ~prop:"C10" ~pred:"safe_and_raw_iterators_agree" ~detail:(String.map (fun c -> if c = ' ' then '_' else c) line)
         | 'K' when (try ignore (Str.search_forward (Str.regexp "slice length") line 0); true with Not_found -> false) ->
           report_spec ~prop:"C01" ~pred:"slice_no_longer_than_reserved" ~detail:(String.map (fun c -> if c = ' ' then '_' else c) line)
         | 'K' when (try ignore (Str.search_forward (Str.regexp "not zeroed") line 0); true with Not_found -> false) ->
           report_spec ~prop:"C12" ~pred:"zeroed_memory_is_zero" ~detail:(String.map (fun c -> if c = ' ' then '_' else c) line)
         | 'K' when (try ignore (Str.search_forward (Str.regexp "min_align") line 0); true with Not_found -> false) ->
           report_spec ~prop:"C04" ~pred:"min_align_reported" ~detail:(String.map (fun c -> if c = ' ' then '_' else c) line)
         | 'K' -> report_spec ~prop:(if (try ignore (Str.search_forward (Str.regexp "call order\\|try_fill result") line 0); true with Not_found -> false) then "C02" else "C11")
                    ~pred:"driver_check" ~detail:(String.map (fun c -> if c = ' ' then '_' else c) line)
         | 'X' -> report_spec ~prop:"C09" ~pred:"terminates" ~detail:(match !pending with Some p -> String.map (fun c -> if c = ' ' then '_' else c) p | None -> "?")
         | 'I' ->
           (* C20 isolation differential: the same history alone and among other arenas, fresh processes *)
           let kv = kv_of line in
           let get x = (try List.assoc x kv with Not_found -> "?") in
           hid := "iso" ^ get "hid"; opno := 0; cur_desc := "isolation differential " ^ get "hid"; header := "iso seed=" ^ get "seed";
           bump_count "iso_histories";
           let parts = split_ws line in
           if List.mem "diff" parts then
             report_spec ~prop:"C20" ~pred:"independent_of_other_arenas"
               ~detail:(String.concat "_" (List.filter (fun w -> String.length w > 5 && (String.sub w 0 5 = "alone" || String.sub w 0 5 = "with_")) parts))
         | 'T' ->
           (* constructor with a given MIN_ALIGN: panics iff the model's ctor_ok is false, and then asks for no memory *)
           let kv = kv_of line in
           let get x = List.assoc x kv in
           let c = List.map n_of_string (split_on ',' (get "consts")) in
           let nth i = List.nth c i in
           let k = { k_footer = nth 0; k_calign = nth 2; k_overhead = nth 3; k_default = nth 4;
                     k_page = nth 5; k_malign = n_of_string (get "malign"); k_eaddr = n_of_int 4096 } in
           hid := "ctor"; opno := 0; cur_desc := line; header := "";
           bump_count "ctor_tests";
           let panicked = (get "res" = "panic:minalign") in
           let other = (get "res" <> "ok" && not panicked) in
           if other || panicked = ctor_ok k || (panicked && get "reqs" <> "0") then
             report_spec ~prop:"C04" ~pred:("ctor_refuses_" ^ get "malign" ^ "_" ^ get "how") ~detail:(get "res" ^ "_reqs=" ^ get "reqs")
         | 'E' -> (match !cur with Some h -> finish_hist h | None -> ()); cur := None; pending := None
         | _ -> ()
     done
   with End_of_file -> ());
  (match !pending, !cur with
   | Some p, Some _ ->
     cur_desc := p;
     report_spec ~prop:"C09" ~pred:"returns" ~detail:"operation_did_not_return(crash_or_hang)"
   | _ -> ());
  let hs = Hashtbl.fold (fun k v acc -> Printf.sprintf "\"%s\":%d" k v :: acc) histo [] in
  Printf.printf "SUMMARY {\"histories\":%d,\"ops\":%d,\"mismatches\":%d,\"spec_failures\":%d,\"distinct_nontrivial\":%d,\"histogram\":{%s},\"samples\":[%s]}\n"
    !histories !ops_total !mismatches !specs (Hashtbl.length nontrivial)
    (String.concat "," (List.sort compare hs))
    (String.concat "," (List.map (fun s -> "\"" ^ String.escaped s ^ "\"") !samples))
