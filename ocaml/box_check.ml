(* box_check: reads traces written by harness/box_driver, steps the extracted
   BoxModel through the same operations and relays the driver's own comparisons
   with std::boxed::Box.  Glue only. *)
open Model

let rec pos_of_z (z : Z.t) : positive =
  if Z.equal z Z.one then XH
  else if Z.testbit z 0 then XI (pos_of_z (Z.shift_right z 1))
  else XO (pos_of_z (Z.shift_right z 1))
let n_of_z z = if Z.sign z <= 0 then N0 else Npos (pos_of_z z)
let rec z_of_pos = function
  | XH -> Z.one
  | XO p -> Z.shift_left (z_of_pos p) 1
  | XI p -> Z.succ (Z.shift_left (z_of_pos p) 1)
let z_of_n = function N0 -> Z.zero | Npos p -> z_of_pos p
let n_of_string s = n_of_z (Z.of_string s)
let string_of_n n = Z.to_string (z_of_n n)
let split_ws s = List.filter (fun x -> x <> "") (String.split_on_char ' ' s)
let ids_of s = if s = "-" || s = "" then [] else List.map n_of_string (String.split_on_char ',' s)
let show_ids l = if l = [] then "-" else String.concat "," (List.map string_of_n l)

let mismatches = ref 0
let specs = ref 0
let hid = ref ""
let header = ref ""
let opno = ref 0
let cur = ref ""
let seen : (string, unit) Hashtbl.t = Hashtbl.create 64
let first key = if Hashtbl.mem seen key then false else (Hashtbl.replace seen key (); true)
let report_mismatch ~field ~model ~impl =
  if first (!hid ^ "/M/" ^ field) then begin
    incr mismatches;
    Printf.printf "MISMATCH hid=%s op=%d who=boxmodel field=%s model=%s impl=%s desc=[%s] hdr=[%s]\n" !hid !opno field model impl !cur !header end
let report_spec ~prop ~pred ~detail =
  if first (!hid ^ "/S/" ^ prop ^ pred) then begin
    incr specs;
    Printf.printf "SPEC hid=%s op=%d prop=%s pred=%s detail=%s desc=[%s] hdr=[%s]\n" !hid !opno prop pred detail !cur !header end
let histo : (string, int) Hashtbl.t = Hashtbl.create 64
let bump_count key = Hashtbl.replace histo key (1 + (try Hashtbl.find histo key with Not_found -> 0))
let histories = ref 0
let ops_total = ref 0
let nontrivial : (int, unit) Hashtbl.t = Hashtbl.create 1024
let samples : string list ref = ref []

let () =
  let sigb = Buffer.create 256 in
  (try
     while true do
       let line = input_line stdin in
       if String.length line = 0 then ()
       else match line.[0] with
         | 'H' ->
           let kv = List.filter_map (fun it -> match String.index_opt it '=' with
               | Some i -> Some (String.sub it 0 i, String.sub it (i + 1) (String.length it - i - 1)) | None -> None) (split_ws line) in
           hid := List.assoc "id" kv; header := String.trim line; opno := 0; Buffer.clear sigb
         | 'O' ->
           incr opno; incr ops_total;
           let secs = List.map String.trim (String.split_on_char '|' line) in
           let op = List.tl (split_ws (List.nth secs 0)) in
           cur := String.concat " " op;
           bump_count ("op:" ^ List.hd op);
           Buffer.add_string sigb (List.hd op);
           let dropped_s = List.nth secs 1 and given_s = List.nth secs 2 and arena_s = List.nth secs 3 in
           if arena_s <> "arena_same 1" then report_spec ~prop:"C17" ~pred:"never_releases_or_moves_arena_memory" ~detail:arena_s;
           let p = n_of_string "4096" in
           let mk x = box_new bw0 p x (n_of_string "1") (n_of_string "24") (n_of_string "8") in
           let expect_dropped, expect_given =
             match op with
             | ["new_drop"; x] | ["pin_drop"; x] | ["raw_roundtrip"; x] ->
               let (w, b) = mk (n_of_string x) in let w2 = box_drop w (box_roundtrip b) in (Some w2.w_dropped, w2.w_given)
             | ["new_drop2"; a; b] ->
               let (w, b1) = mk (n_of_string a) in let (w, b2) = box_new w p (n_of_string b) (n_of_string "1") (n_of_string "24") (n_of_string "8") in
               let w2 = box_drop (box_drop w b1) b2 in (Some w2.w_dropped, w2.w_given)
             | ["into_inner"; x] -> let (w, b) = mk (n_of_string x) in let w2 = box_into_inner w b in (Some w2.w_dropped, w2.w_given)
             | ["leak"; x] -> let (w, b) = mk (n_of_string x) in let w2 = box_leak w b in (Some w2.w_dropped, w2.w_given)
             | ["downcast"; x; tag] ->
               let (w, b) = mk (n_of_string x) in
               let b' = (match box_downcast b (n_of_string tag) with Inl b' -> b' | Inr b' -> b') in
               let w2 = box_drop w b' in (Some w2.w_dropped, w2.w_given)
             | ["slice_drop"; ids; n] ->
               let b = box_of_vec p (ids_of ids) N0 in
               let b' = (match box_try_array b (n_of_string "3") with Inl b' -> b' | Inr b' -> b') in
               ignore n; let w2 = box_drop bw0 b' in (Some w2.w_dropped, w2.w_given)
             | ["zst_drop"; _] -> (None, [])
             | _ -> (None, []) in
           (match expect_dropped with
            | Some d ->
              let got = (match split_ws dropped_s with [_; s] -> ids_of s | _ -> []) in
              if d <> got then report_mismatch ~field:"dropped" ~model:(show_ids d) ~impl:(show_ids got);
              let gg = (match split_ws given_s with [_; s] -> ids_of s | _ -> []) in
              if expect_given <> gg then report_mismatch ~field:"given" ~model:(show_ids expect_given) ~impl:(show_ids gg)
            | None ->
              if dropped_s <> "dropped_count 1" then report_spec ~prop:"C17" ~pred:"zst_dropped_once" ~detail:dropped_s)
         | 'X' ->
           let what = String.map (fun c -> if c = ' ' then '_' else c) (String.trim (String.sub line 1 (String.length line - 1))) in
           if String.length what >= 9 && (String.sub what 0 9 = "zst_slice" || String.sub what 0 9 = "zst_array") then report_spec ~prop:"C15" ~pred:"box_slice_values_dropped_once" ~detail:what;
           report_spec ~prop:"C17" ~pred:"like_std_box" ~detail:what
         | 'E' ->
           incr histories;
           Hashtbl.replace nontrivial (Hashtbl.hash (Buffer.contents sigb)) ();
           if List.length !samples < 3 then samples := !header :: !samples
         | _ -> ()
     done
   with End_of_file -> ());
  let hs = Hashtbl.fold (fun k v acc -> Printf.sprintf "\"%s\":%d" k v :: acc) histo [] in
  Printf.printf "SUMMARY {\"histories\":%d,\"ops\":%d,\"mismatches\":%d,\"spec_failures\":%d,\"distinct_nontrivial\":%d,\"histogram\":{%s},\"samples\":[%s]}\n"
    !histories !ops_total !mismatches !specs (Hashtbl.length nontrivial)
    (String.concat "," (List.sort compare hs))
    (String.concat "," (List.map (fun s -> "\"" ^ String.escaped s ^ "\"") !samples))
