(* string_check: reads traces written by harness/string_driver.  Compares
   bumpalo's String with std's String (the oracle of C14) on every call, checks
   that the bytes are valid UTF-8 after every operation, and runs the extracted
   Coq model (Utf8.v) of the boundary-checking operations and of the decoders on
   the same inputs.  Glue only. *)
open Model

let rec pos_of_z (z : Z.t) : positive =
  if Z.equal z Z.one then XH
  else if Z.testbit z 0 then XI (pos_of_z (Z.shift_right z 1))
  else XO (pos_of_z (Z.shift_right z 1))
let n_of_z z = if Z.sign z <= 0 then N0 else Npos (pos_of_z z)
let rec z_of_pos = function
  | XH -> Z.one
  | XO p -> Z.shift_left (z_of_pos p) 1
  | XI p -> Z.succ (Z.shift_left (z_of_pos p) 1)
let z_of_n = function N0 -> Z.zero | Npos p -> z_of_pos p
let n_of_string s = n_of_z (Z.of_string s)
let n_of_int i = n_of_z (Z.of_int i)
let int_of_n n = Z.to_int (z_of_n n)

let split_ws s = List.filter (fun x -> x <> "") (String.split_on_char ' ' s)
let starts_with s p = String.length s >= String.length p && String.sub s 0 (String.length p) = p
let bytes_of_hex h =
  if h = "-" || h = "" then []
  else List.init (String.length h / 2) (fun i -> n_of_int (int_of_string ("0x" ^ String.sub h (2 * i) 2)))
let hex_of_bytes l = if l = [] then "-" else String.concat "" (List.map (fun b -> Printf.sprintf "%02x" (int_of_n b)) l)

let mismatches = ref 0
let specs = ref 0
let hid = ref ""
let header = ref ""
let opno = ref 0
let cur = ref ""
let seen : (string, unit) Hashtbl.t = Hashtbl.create 64
let first key = if Hashtbl.mem seen key then false else (Hashtbl.replace seen key (); true)
let report_mismatch ~field ~model ~impl =
  if first (!hid ^ "/M/" ^ field) then begin
    incr mismatches;
    Printf.printf "MISMATCH hid=%s op=%d who=strmodel field=%s model=%s impl=%s desc=[%s] hdr=[%s]\n" !hid !opno field model impl !cur !header end
let report_spec ~prop ~pred ~detail =
  if first (!hid ^ "/S/" ^ prop ^ pred) then begin
    incr specs;
    Printf.printf "SPEC hid=%s op=%d prop=%s pred=%s detail=%s desc=[%s] hdr=[%s]\n" !hid !opno prop pred detail !cur !header end

let histo : (string, int) Hashtbl.t = Hashtbl.create 64
(* samples for the extraction-independent cross-check: "XC <Coq term> === <Coq term>" (every k-th case) *)
let xc_seen = ref 0
let coq_bytes l = "[" ^ String.concat "; " (List.map (fun b -> string_of_int (int_of_n b)) l) ^ "]"
let xc lhs rhs = incr xc_seen; if !xc_seen mod 97 = 1 && !xc_seen < 97 * 60 then Printf.printf "XC %s === %s\n" lhs rhs
let bump_count key = Hashtbl.replace histo key (1 + (try Hashtbl.find histo key with Not_found -> 0))
let histories = ref 0
let ops_total = ref 0
let model_ops = ref 0
let decoder_cases = ref 0
let nontrivial : (int, unit) Hashtbl.t = Hashtbl.create 1024
let samples : string list ref = ref []

let bound_of s len =
  (* the resolved index of a range bound, None when `n + 1` overflows *)
  if s = "u" then `U
  else let n = Z.of_string (String.sub s 1 (String.length s - 1)) in
    if s.[0] = 'i' then `I n else `E n
let max_usize = Z.pred (Z.shift_left Z.one 64)
let rec nat_of_int i = if i <= 0 then O else S (nat_of_int (i - 1))
let resolve_range st en len =
  let a = match bound_of st len with `U -> Some Z.zero | `I n -> Some n | `E n -> if Z.equal n max_usize then None else Some (Z.succ n) in
  let b = match bound_of en len with `U -> Some (Z.of_int len) | `E n -> Some n | `I n -> if Z.equal n max_usize then None else Some (Z.succ n) in
  match a, b with Some a, Some b -> Some (n_of_z a, n_of_z b) | _ -> None

let () =
  let prev : n list ref = ref [] in
  let last_t : (string list * string * string * string) option ref = ref None in
  let pending : string option ref = ref None in
  let sigb = Buffer.create 256 in
  (try
     while true do
       let line = input_line stdin in
       if String.length line = 0 then ()
       else match line.[0] with
         | 'H' ->
           let kv = List.filter_map (fun it -> match String.index_opt it '=' with
               | Some i -> Some (String.sub it 0 i, String.sub it (i + 1) (String.length it - i - 1)) | None -> None) (split_ws line) in
           hid := List.assoc "id" kv; header := String.trim line; opno := 0; prev := []; last_t := None; pending := None;
           Buffer.clear sigb
         | 'B' -> pending := Some line
         | 'T' ->
           pending := None;
           let secs = List.map String.trim (String.split_on_char '|' line) in
           let op = List.tl (split_ws (List.nth secs 0)) in
           let res = List.nth secs 1 and bytes = List.nth secs 2 and valid = List.nth secs 3 in
           cur := String.concat " " op; incr opno; incr ops_total;
           bump_count ("op:" ^ (match op with o :: _ -> o | [] -> "?"));
           Buffer.add_string sigb (String.concat " " op);
           last_t := Some (op, res, bytes, valid);
           if valid <> "1" then begin
             report_spec ~prop:"C14" ~pred:"valid_utf8_after_every_operation" ~detail:bytes;
             if res = "panic" then report_spec ~prop:"C16" ~pred:"string_valid_after_unwind" ~detail:bytes
           end;
           (* the extracted validity test agrees *)
           if bytes <> "-" || true then begin
             let bs = bytes_of_hex bytes in
             if valid_utf8 bs <> (valid = "1") then report_mismatch ~field:"valid_utf8" ~model:(string_of_bool (valid_utf8 bs)) ~impl:valid
           end;
           (* model of the boundary-checking operations *)
           let before = !prev in
           let len = List.length before in
           (* what a drain yields: characters of the range from the front, from the back, the size hint of
              the rest (s_drain, Utf8Enc.s_drain_spec) *)
           (match op with
            | ["drain"; st; en; take] ->
              (match resolve_range st en (List.length !prev) with
               | None -> ()
               | Some (a, b) ->
                 let t = int_of_string take in
                 (match s_drain !prev a b (nat_of_int (t land 3)) (nat_of_int (t lsr 2)) with
                  | SPanic -> ()
                  | SRet d ->
                    let left = List.length (List.concat d.sd_left) in
                    let expect = Printf.sprintf "taken:%s:%s:(%d, Some(%d))" (hex_of_bytes (List.concat d.sd_front))
                        (hex_of_bytes (List.concat d.sd_back)) ((left + 3) / 4) left in
                    incr model_ops;
                    if res <> "panic" && res <> expect then report_mismatch ~field:"drain_yields" ~model:expect ~impl:res))
            | _ -> ());
           (* retain with a panicking predicate: the loop of string.rs at buffer level (StringRetain.v) *)
           (match op with
            | ["retain"; script] when String.contains script '2' ->
              let answers = List.filter_map (fun c -> if c = '1' then Some Keep else if c = '0' then Some Del else if c = '2' then Some Boom0 else None)
                  (List.init (String.length script) (String.get script)) in
              let (text, panicked) = retain_run before answers in
              incr model_ops;
              if panicked <> (res = "panic") then
                report_mismatch ~field:"retain_panics" ~model:(string_of_bool panicked) ~impl:res
              else if hex_of_bytes text <> bytes then
                report_mismatch ~field:"retain_bytes_after_unwind" ~model:(hex_of_bytes text) ~impl:bytes
            | _ -> ());
           let expect =
             match op with
             | ["pop"] -> Some (Some (fst (s_pop before)))
             | ["retain"; script] when not (String.contains script '2') ->
               let keep = List.filter_map (fun c -> if c = '1' then Some true else if c = '0' then Some false else None)
                   (List.init (String.length script) (String.get script)) in
               Some (Some (s_retain before keep))
             | ["push"; cp] -> Some (Some (s_push before (n_of_string cp)))
             | ["push_str"; t] -> Some (Some (s_push_str before (bytes_of_hex t)))
             | ["extend"; t] ->
               (* the driver extends by the chars of t: decode them with the model, push them one by one *)
               let cps = List.map decode (chars (bytes_of_hex t)) in
               if List.for_all (fun c -> c <> None) cps
               then Some (Some (s_extend before (List.filter_map (fun c -> c) cps))) else None
             | ["clear"] -> Some (Some [])
             | ["clone_from"; t] -> Some (Some (bytes_of_hex t))
             | ["clone"] | ["shrink_to_fit"] -> Some (Some before)
             | ["insert"; i; cp] -> (match s_insert before (n_of_string i) (n_of_string cp) with SRet s -> Some (Some s) | SPanic -> Some None)
             | ["truncate"; n] -> (match s_truncate before (n_of_string n) with SRet s -> Some (Some s) | SPanic -> Some None)
             | ["insert_str"; i; t] -> (match s_insert_str before (n_of_string i) (bytes_of_hex t) with SRet s -> Some (Some s) | SPanic -> Some None)
             | ["split_off"; i] -> (match s_split_off before (n_of_string i) with SRet (a, _) -> Some (Some a) | SPanic -> Some None)
             | ["remove"; i] -> (match s_remove before (n_of_string i) with SRet (s, _) -> Some (Some s) | SPanic -> Some None)
             | ["replace_range"; st; en; t] ->
               (match resolve_range st en len with
                | None -> Some None
                | Some (a, b) -> (match s_replace_range before a b (bytes_of_hex t) with SRet s -> Some (Some s) | SPanic -> Some None))
             | ["drain"; st; en; _] ->
               (match resolve_range st en len with
                | None -> Some None
                | Some (a, b) -> (match s_replace_range before a b [] with SRet s -> Some (Some s) | SPanic -> Some None))
             | _ -> None in
           (match expect with
            | None -> ()
            | Some e ->
              incr model_ops;
              (match e with
               | None -> if res <> "panic" then report_mismatch ~field:"panics" ~model:"panic" ~impl:res
               | Some s ->
                 if res = "panic" then report_mismatch ~field:"panics" ~model:"no_panic" ~impl:res
                 else if hex_of_bytes s <> bytes then report_mismatch ~field:"bytes" ~model:(hex_of_bytes s) ~impl:bytes));
           prev := bytes_of_hex bytes
         | 'S' ->
           let secs = List.map String.trim (String.split_on_char '|' line) in
           let res = List.nth secs 1 and bytes = List.nth secs 2 in
           (match !last_t with
            | Some (_, tres, tbytes, _) ->
              let pt = (tres = "panic") and ps = (res = "panic") in
              if pt <> ps then report_spec ~prop:"C14" ~pred:"panics_like_std" ~detail:(tres ^ "_vs_std_" ^ res)
              else if not pt then begin
                if tres <> res then report_spec ~prop:"C14" ~pred:"returns_like_std" ~detail:(tres ^ "_vs_std_" ^ res);
                if tbytes <> bytes then report_spec ~prop:"C14" ~pred:"text_like_std" ~detail:(tbytes ^ "_vs_std_" ^ bytes)
              end
            | None -> ())
         | 'D' ->
           incr decoder_cases;
           let secs = List.map String.trim (String.split_on_char '|' line) in
           (match split_ws (List.nth secs 0) with
            | [_; "lossy"; inp] ->
              hid := "decoders"; header := ""; cur := "lossy " ^ inp;
              let b = List.nth secs 1 and s = List.nth secs 2 in
              if b <> s then report_spec ~prop:"C14" ~pred:"from_utf8_lossy_like_std" ~detail:(inp ^ ":" ^ b ^ "_vs_std_" ^ s);
              let inb = bytes_of_hex inp in
              xc ("from_utf8_lossy actual_width " ^ coq_bytes inb) (coq_bytes (from_utf8_lossy actual_width inb));
              xc ("utf8_lossy_spec " ^ coq_bytes inb) (coq_bytes (utf8_lossy_spec inb));
              let m = hex_of_bytes (from_utf8_lossy actual_width (bytes_of_hex inp)) in
              if m <> b then report_mismatch ~field:"lossy" ~model:m ~impl:(inp ^ ":" ^ b);
              (* the implementation-independent specification against std itself *)
              let sp = hex_of_bytes (utf8_lossy_spec (bytes_of_hex inp)) in
              if sp <> s then report_mismatch ~field:"lossy_spec_vs_std" ~model:sp ~impl:(inp ^ ":" ^ s)
            | [_; "utf16"; inp] ->
              hid := "decoders"; header := ""; cur := "utf16 " ^ inp;
              let norm x = if x = "-" then "" else x in
              let b = norm (List.nth secs 1) and s = norm (List.nth secs 2) in
              let inp = norm inp in
              let units = List.init (String.length inp / 4) (fun i -> n_of_int (int_of_string ("0x" ^ String.sub inp (4 * i) 4))) in
              if b <> s then report_spec ~prop:"C14" ~pred:"from_utf16_like_std" ~detail:(inp ^ ":" ^ b ^ "_vs_std_" ^ s);
              if b <> "err" && not (valid_utf8 (bytes_of_hex b)) then report_spec ~prop:"C14" ~pred:"from_utf16_result_valid" ~detail:(inp ^ ":" ^ b);
              let m = (match from_utf16 units with Some bs -> norm (hex_of_bytes bs) | None -> "err") in
              xc ("from_utf16 " ^ coq_bytes units) (match from_utf16 units with Some bs -> "Some " ^ coq_bytes bs | None -> "None");
              if m <> b then report_mismatch ~field:"from_utf16" ~model:m ~impl:(inp ^ ":" ^ b);
              if m <> s then report_mismatch ~field:"from_utf16_spec_vs_std" ~model:m ~impl:(inp ^ ":" ^ s)
            | [_; "utf8"; inp] ->
              hid := "decoders"; header := ""; cur := "utf8 " ^ inp;
              let b = split_ws (List.nth secs 1) and s = List.nth secs 2 in
              (match b with
               | [ok; same] ->
                 if ok <> s then report_spec ~prop:"C14" ~pred:"from_utf8_like_std" ~detail:(inp ^ ":" ^ ok ^ "_vs_std_" ^ s);
                 if same <> "1" then report_spec ~prop:"C14" ~pred:"from_utf8_keeps_bytes" ~detail:inp;
                 let m = valid_utf8 (bytes_of_hex inp) in
                 xc ("valid_utf8 " ^ coq_bytes (bytes_of_hex inp)) (string_of_bool m);
                 if m <> (ok = "1") then report_mismatch ~field:"from_utf8" ~model:(string_of_bool m) ~impl:(inp ^ ":" ^ ok)
               | _ -> ())
            | _ -> ())
         | 'N' -> bump_count (String.map (fun c -> if c = ' ' then '_' else c) (String.trim (String.sub line 1 (String.length line - 1))))
         | 'X' ->
           let what = String.map (fun c -> if c = ' ' then '_' else c) (String.trim (String.sub line 1 (String.length line - 1))) in
           if starts_with what "neighbour" then report_spec ~prop:"C13" ~pred:"neighbours_untouched" ~detail:what
           else if starts_with what "forwarding" then report_spec ~prop:"C14" ~pred:"trait_forwarding_like_std" ~detail:what
           else if starts_with what "refused_growth" then report_spec ~prop:"C14" ~pred:"utf8_after_refused_growth" ~detail:what
           else if starts_with what "into_bump_str" then report_spec ~prop:"C14" ~pred:"text_given_to_the_arena_stays_intact" ~detail:what
           else report_spec ~prop:"C14" ~pred:"decoder_like_std" ~detail:what
         | 'E' ->
           incr histories;
           if !opno > 4 then Hashtbl.replace nontrivial (Hashtbl.hash (Buffer.contents sigb)) ();
           if List.length !samples < 3 then samples := !header :: !samples
         | _ -> ()
     done
   with End_of_file -> ());
  (match !pending with
   | Some p -> cur := p; report_spec ~prop:"C14" ~pred:"returns" ~detail:"operation_did_not_return(crash_abort_or_hang)"
   | None -> ());
  let hs = Hashtbl.fold (fun k v acc -> Printf.sprintf "\"%s\":%d" k v :: acc) histo [] in
  Printf.printf "SUMMARY {\"histories\":%d,\"ops\":%d,\"model_ops\":%d,\"decoder_cases\":%d,\"mismatches\":%d,\"spec_failures\":%d,\"distinct_nontrivial\":%d,\"histogram\":{%s},\"samples\":[%s]}\n"
    !histories !ops_total !model_ops !decoder_cases !mismatches !specs (Hashtbl.length nontrivial)
    (String.concat "," (List.sort compare hs))
    (String.concat "," (List.map (fun s -> "\"" ^ String.escaped s ^ "\"") !samples))
