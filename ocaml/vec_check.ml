(* vec_check: reads traces written by harness/vec_driver on stdin.  For every
   operation it (a) compares bumpalo's Vec with std's Vec (the oracle of C13),
   (b) steps the extracted Coq model (VecModel.v) and compares it with bumpalo's
   Vec, (c) checks the drop ledger (C15/C16).  Glue only. *)
open Model

let rec pos_of_z (z : Z.t) : positive =
  if Z.equal z Z.one then XH
  else if Z.testbit z 0 then XI (pos_of_z (Z.shift_right z 1))
  else XO (pos_of_z (Z.shift_right z 1))
let n_of_z z = if Z.sign z <= 0 then N0 else Npos (pos_of_z z)
let rec z_of_pos = function
  | XH -> Z.one
  | XO p -> Z.shift_left (z_of_pos p) 1
  | XI p -> Z.succ (Z.shift_left (z_of_pos p) 1)
let z_of_n = function N0 -> Z.zero | Npos p -> z_of_pos p
let n_of_string s = n_of_z (Z.of_string s)
let string_of_n n = Z.to_string (z_of_n n)
let rec nat_of_int i = if i <= 0 then O else S (nat_of_int (i - 1))

let split_ws s = List.filter (fun x -> x <> "") (String.split_on_char ' ' s)
let ids_of s = if s = "-" || s = "" then [] else List.map n_of_string (String.split_on_char ',' s)
let show_ids l = if l = [] then "-" else String.concat "," (List.map string_of_n l)
let starts_with s p = String.length s >= String.length p && String.sub s 0 (String.length p) = p

let mismatches = ref 0
let specs = ref 0
let hid = ref ""
let header = ref ""
let opno = ref 0
let cur = ref ""
let seen : (string, unit) Hashtbl.t = Hashtbl.create 64
let first key = if Hashtbl.mem seen key then false else (Hashtbl.replace seen key (); true)
let report_mismatch ~field ~model ~impl =
  if first (!hid ^ "/M/" ^ field) then begin
    incr mismatches;
    Printf.printf "MISMATCH hid=%s op=%d who=vecmodel field=%s model=%s impl=%s desc=[%s] hdr=[%s]\n" !hid !opno field model impl !cur !header end
let report_spec ~prop ~pred ~detail =
  if first (!hid ^ "/S/" ^ prop ^ pred) then begin
    incr specs;
    Printf.printf "SPEC hid=%s op=%d prop=%s pred=%s detail=%s desc=[%s] hdr=[%s]\n" !hid !opno prop pred detail !cur !header end

let histo : (string, int) Hashtbl.t = Hashtbl.create 64
let xc_seen = ref 0
let xc lhs rhs = incr xc_seen; if !xc_seen mod 7 = 1 && !xc_seen < 7 * 60 then Printf.printf "XC %s === %s\n" lhs rhs
let bump_count key = Hashtbl.replace histo key (1 + (try Hashtbl.find histo key with Not_found -> 0))
let histories = ref 0
let ops_total = ref 0
let model_ops = ref 0
let nontrivial : (int, unit) Hashtbl.t = Hashtbl.create 1024
let samples : string list ref = ref []

type line = { op : string list; res : string; contents : n list; len : int; cap : Z.t; drops : n list; next : n }

let parse_line (l : string) : line =
  let secs = List.map String.trim (String.split_on_char '|' l) in
  let nth i = try List.nth secs i with _ -> "" in
  let op = List.tl (split_ws (nth 0)) in
  let lc = split_ws (nth 3) in
  { op; res = nth 1; contents = ids_of (nth 2);
    len = (try int_of_string (List.nth lc 0) with _ -> 0);
    cap = (try Z.of_string (List.nth lc 1) with _ -> Z.zero);
    drops = ids_of (nth 4); next = (if nth 5 = "" then N0 else n_of_string (nth 5)) }

let bound_of s =
  if s = "u" then Unb
  else if s.[0] = 'i' then Incl (n_of_string (String.sub s 1 (String.length s - 1)))
  else Excl (n_of_string (String.sub s 1 (String.length s - 1)))
let ans_of s = if s = "-" then [] else List.init (String.length s) (fun i -> match s.[i] with 'y' -> Yes | 'n' -> No | _ -> Boom)
let has_boom s = String.contains s 'b'

let sorted l = List.sort compare (List.map string_of_n l)
let is_panic r = starts_with r "panic:"

(* model result in the vocabulary of the trace *)
type mres = { m_res : string; m_vec : vec; m_drops : n list; m_exact_drops : bool }

let unit_of = function Ret v -> ("unit", Some v) | Panic _ -> ("panic", None)

let model_step (e : ecfg) (v : vec) (l : line) : mres option =
  let keep r = Some r in
  match l.op with
  | ["push"; x] -> (match push e v (n_of_string x) with Ret v' -> keep { m_res = "unit"; m_vec = v'; m_drops = []; m_exact_drops = true } | Panic _ -> keep { m_res = "panic"; m_vec = v; m_drops = []; m_exact_drops = false })
  | ["pop"] -> let (v', r) = pop v in keep { m_res = (match r with Some x -> "some:" ^ string_of_n x | None -> "none"); m_vec = v'; m_drops = []; m_exact_drops = true }
  | ["insert"; i; x] -> (match insert e v (n_of_string i) (n_of_string x) with
      | Ret v' -> keep { m_res = "unit"; m_vec = v'; m_drops = []; m_exact_drops = true }
      | Panic _ -> keep { m_res = "panic"; m_vec = v; m_drops = [n_of_string x]; m_exact_drops = true })
  | ["remove"; i] -> (match remove v (n_of_string i) with
      | Ret (v', x) -> keep { m_res = "some:" ^ string_of_n x; m_vec = v'; m_drops = []; m_exact_drops = true }
      | Panic _ -> keep { m_res = "panic"; m_vec = v; m_drops = []; m_exact_drops = true })
  | ["swap_remove"; i] -> (match swap_remove v (n_of_string i) with
      | Ret (v', x) -> keep { m_res = "some:" ^ string_of_n x; m_vec = v'; m_drops = []; m_exact_drops = true }
      | Panic _ -> keep { m_res = "panic"; m_vec = v; m_drops = []; m_exact_drops = true })
  | ["truncate"; n; boom] ->
    let (r, ef) = truncate v (n_of_string n) (ids_of boom) in
    keep { m_res = (match r with Ret _ -> "unit" | Panic _ -> "panic"); m_vec = truncate_state v (n_of_string n) (ids_of boom); m_drops = ef.f_drops; m_exact_drops = true }
  | ["clear"] ->
    let (r, ef) = truncate v N0 [] in
    keep { m_res = (match r with Ret _ -> "unit" | Panic _ -> "panic"); m_vec = truncate_state v N0 []; m_drops = ef.f_drops; m_exact_drops = true }
  | ["reserve"; n; ex] -> (match reserve e v (n_of_string n) (ex = "1") with
      | Ret v' -> keep { m_res = "unit"; m_vec = v'; m_drops = []; m_exact_drops = true }
      | Panic _ -> keep { m_res = "panic"; m_vec = v; m_drops = []; m_exact_drops = true })
  | ["try_reserve"; n; ex] -> (match try_reserve e v (n_of_string n) (ex = "1") with
      | Inl v' -> keep { m_res = "unit"; m_vec = v'; m_drops = []; m_exact_drops = true }
      | Inr CapacityOverflow -> keep { m_res = "err:capacity"; m_vec = v; m_drops = []; m_exact_drops = true }
      | Inr AllocErr -> keep { m_res = "err:alloc"; m_vec = v; m_drops = []; m_exact_drops = true })
  | ["shrink_to_fit"] -> keep { m_res = "unit"; m_vec = shrink_to_fit v; m_drops = []; m_exact_drops = true }
  | ["drain"; s; en; f; b] -> (match drain v (bound_of s) (bound_of en) (nat_of_int (int_of_string f)) (nat_of_int (int_of_string b)) with
      | Ret d -> keep { m_res = "front:" ^ show_ids d.d_taken_front ^ ";back:" ^ show_ids d.d_taken_back; m_vec = d.d_vec; m_drops = d.d_dropped; m_exact_drops = true }
      | Panic _ -> keep { m_res = "panic"; m_vec = v; m_drops = []; m_exact_drops = true })
  | ["splice"; s; en; xs; t] ->
    (* the driver's iterator reports the constant lower size hint ceil(n/2); the caller takes the
       first t removed items, Splice::drop drops the others, front to back *)
    let items = ids_of xs in
    let hint = n_of_z (Z.of_int ((List.length items + 1) / 2)) in
    (match splice e v (bound_of s) (bound_of en) items hint hint with
     | Ret r ->
       let t = int_of_string t in
       let rec split k l = if k = 0 then ([], l) else (match l with [] -> ([], []) | x :: r -> let (a, b) = split (k - 1) r in (x :: a, b)) in
       let (taken, dropped) = split t r.s_removed in
       keep { m_res = "taken:" ^ show_ids taken; m_vec = r.s_vec; m_drops = dropped; m_exact_drops = true }
     | Panic _ -> keep { m_res = "panic"; m_vec = v; m_drops = []; m_exact_drops = false })
  | ["into_iter"; f; b] ->
    (* the vector is consumed (the driver goes on with a fresh, empty one); what the caller did not
       take is dropped by the IntoIter, front to back *)
    let r = into_iter v (nat_of_int (int_of_string f)) (nat_of_int (int_of_string b)) in
    keep { m_res = "front:" ^ show_ids r.c_taken_front ^ ";back:" ^ show_ids r.c_taken_back ^ ";left:" ^ string_of_int (List.length r.c_left);
           m_vec = { v_buf = []; v_len = N0 }; m_drops = r.c_left; m_exact_drops = true }
  | ["into_slice"; _] ->
    (* into_bump_slice(_mut) / into_boxed_slice: the contents, where they are; nothing dropped; the
       vector is consumed (the driver forgets the slice and goes on with a fresh vector) *)
    let (ids, _) = into_slice v in
    keep { m_res = "ids:" ^ show_ids ids; m_vec = { v_buf = []; v_len = N0 }; m_drops = []; m_exact_drops = true }
  | ["clone"; k] when k = "0" ->
    (* the clone holds the next fresh identities in order, is shown and dropped; the original stays *)
    (match clone_vec e v l.next with
     | Ret c -> keep { m_res = "ids:" ^ show_ids (contents c); m_vec = v; m_drops = contents c; m_exact_drops = true }
     | Panic _ -> keep { m_res = "panic"; m_vec = v; m_drops = []; m_exact_drops = false })
  | ["retain"; a] ->
    let d = retain v (ans_of a) in
    keep { m_res = (if d.df_panicked then "panic" else "unit"); m_vec = d.df_vec; m_drops = d.df_dropped; m_exact_drops = true }
  | ["drain_filter"; a; t] ->
    let d = drain_filter v (ans_of a) (nat_of_int (int_of_string t)) in
    keep { m_res = (if d.df_panicked then "panic" else "taken:" ^ show_ids d.df_taken); m_vec = d.df_vec; m_drops = d.df_dropped; m_exact_drops = true }
  | ["dedup_by"; a] ->
    let (r, ef) = dedup_by v (ans_of a) in
    keep { m_res = (match r with Ret _ -> "unit" | Panic _ -> "panic"); m_vec = dedup_state v (ans_of a); m_drops = ef.f_drops; m_exact_drops = true }
  | ["resize"; n; x; k] when k = "0" ->
    let (r, ef) = resize e v (n_of_string n) (n_of_string x) l.next [] in
    (match r with
     | Ret v' -> keep { m_res = "unit"; m_vec = v'; m_drops = ef.f_drops; m_exact_drops = true }
     | Panic _ -> keep { m_res = "panic"; m_vec = v; m_drops = ef.f_drops; m_exact_drops = false })
  | ["resize"; n; x; k] ->
    (* Clone panics at its k-th call: if that call is reached (growing needs n - len - 1 clones),
       the vector keeps its contents plus the k-1 clones made so far; the value is dropped once *)
    let nl = n_of_string n in
    let needed = Z.sub (Z.sub (z_of_n nl) (z_of_n v.v_len)) Z.one in
    let kz = Z.of_string k in
    if Z.leq kz needed then begin
      let ((r, v'), ef) = resize_clone_panic e v nl (n_of_string x) l.next (nat_of_int (Z.to_int kz - 1)) in
      keep { m_res = "panic"; m_vec = v'; m_drops = ef.f_drops; m_exact_drops = (match r with Panic PCallback -> true | _ -> false) }
    end else begin
      let (r, ef) = resize e v nl (n_of_string x) l.next [] in
      (match r with
       | Ret v' -> keep { m_res = "unit"; m_vec = v'; m_drops = ef.f_drops; m_exact_drops = true }
       | Panic _ -> keep { m_res = "panic"; m_vec = v; m_drops = ef.f_drops; m_exact_drops = false })
    end
  | ["extend_from_slice"; xs; k] when k = "0" ->
    (* clones of the source get the next fresh identities, in order *)
    let n = List.length (ids_of xs) in
    let clones = List.init n (fun i -> N.add l.next (n_of_z (Z.of_int i))) in
    (match extend_iter e v (n_of_z (Z.of_int n)) clones with
     | Ret v' -> keep { m_res = "unit"; m_vec = v'; m_drops = []; m_exact_drops = true }
     | Panic _ -> keep { m_res = "panic"; m_vec = v; m_drops = []; m_exact_drops = false })
  | ["extend_from_slice"; xs; k] ->
    (* Clone panics at its k-th call: the k-1 clones made before it were pushed *)
    let n = List.length (ids_of xs) in
    let kk = int_of_string k in
    let m = if kk <= n then kk - 1 else n in
    let clones = List.init m (fun i -> N.add l.next (n_of_z (Z.of_int i))) in
    (match extend_iter e v (n_of_z (Z.of_int n)) clones with
     | Ret v' -> keep { m_res = (if kk <= n then "panic" else "unit"); m_vec = v'; m_drops = []; m_exact_drops = (kk > n) }
     | Panic _ -> keep { m_res = "panic"; m_vec = v; m_drops = []; m_exact_drops = false })
  | ["extend"; xs; h; p] when p <> "-" ->
    (* the iterator panics at call number p (0-based): the p items yielded before were pushed;
       the items never yielded are the iterator's to drop *)
    let items = ids_of xs in
    let n = List.length items in
    let pp = int_of_string p in
    let yielded = List.filteri (fun i _ -> i < pp) items in
    (match extend_iter e v (n_of_string h) yielded with
     | Ret v' -> keep { m_res = (if pp <= n then "panic" else "unit"); m_vec = v'; m_drops = []; m_exact_drops = false }
     | Panic _ -> keep { m_res = "panic"; m_vec = v; m_drops = []; m_exact_drops = false })
  | ["extend"; xs; h; p] when p = "-" ->
    (match extend_iter e v (n_of_string h) (ids_of xs) with
     | Ret v' -> keep { m_res = "unit"; m_vec = v'; m_drops = []; m_exact_drops = true }
     | Panic _ -> keep { m_res = "panic"; m_vec = v; m_drops = []; m_exact_drops = false })
  | ["append"; xs] ->
    (match extend_copy e v (ids_of xs) with
     | Ret v' -> keep { m_res = "other_len:0"; m_vec = v'; m_drops = []; m_exact_drops = true }
     | Panic _ -> keep { m_res = "panic"; m_vec = v; m_drops = []; m_exact_drops = false })
  | ["split_off"; a] ->
    (match split_off e v (n_of_string a) with
     | Ret (v', o) -> keep { m_res = "ids:" ^ show_ids (contents o); m_vec = v'; m_drops = []; m_exact_drops = true }
     | Panic _ -> keep { m_res = "panic"; m_vec = v; m_drops = []; m_exact_drops = true })
  | _ -> None

let () =
  let e = ref { e_size = n_of_string "24"; e_align = n_of_string "8" } in
  let mv : vec option ref = ref None in           (* the model's vector; None = not tracked any more *)
  let promise : Z.t ref = ref Z.zero in           (* capacity a successful reserve promised and nothing has released since *)
  let pending : string option ref = ref None in
  let last_v : line option ref = ref None in
  let feat = ref false in
  let sigb = Buffer.create 256 in
  (try
     while true do
       let line = input_line stdin in
       if String.length line = 0 then ()
       else match line.[0] with
         | 'H' ->
           let kv = List.filter_map (fun it -> match String.index_opt it '=' with
               | Some i -> Some (String.sub it 0 i, String.sub it (i + 1) (String.length it - i - 1)) | None -> None) (split_ws line) in
           hid := List.assoc "id" kv; header := String.trim line; opno := 0;
           e := { e_size = n_of_string (List.assoc "esize" kv); e_align = n_of_string (List.assoc "ealign" kv) };
           mv := None; promise := Z.zero; pending := None; last_v := None; feat := false; Buffer.clear sigb
         | 'B' -> pending := Some line
         | 'V' ->
           pending := None;
           let l = parse_line line in
           cur := String.concat " " l.op; incr opno; incr ops_total;
           bump_count ("op:" ^ (match l.op with o :: _ -> o | [] -> "?"));
           Buffer.add_string sigb (String.concat " " l.op);
           last_v := Some l;
           (match l.op with
            | ["new"; c] ->
              (match vwith_capacity !e (n_of_string c) with
               | Ret v -> mv := Some v
               | Panic _ -> mv := None);
              (match !mv with Some v when not (Z.equal (z_of_n (v_cap v)) l.cap) ->
                 report_mismatch ~field:"cap" ~model:(string_of_n (v_cap v)) ~impl:(Z.to_string l.cap) | _ -> ())
            | ["drop"] ->
              (match !mv with
               | Some v ->
                 if sorted (drop_vec v) <> sorted l.drops then
                   report_mismatch ~field:"final_drops" ~model:(show_ids (drop_vec v)) ~impl:(show_ids l.drops)
               | None -> ())
            | _ ->
              (* C13 invariant part: capacity never below length *)
              if Z.lt l.cap (Z.of_int l.len) then report_spec ~prop:"C13" ~pred:"cap_ge_len" ~detail:(Z.to_string l.cap);
              (* ... and never below what a reservation promised, until an operation that is allowed to
                 give capacity back (shrink_to_fit) or that replaces the vector *)
              (match (match l.op with "armed" :: _ :: inner -> inner | o -> o) with
               | ["reserve"; n; _] when not (is_panic l.res) && not (starts_with l.res "err") ->
                 (* the reservation was made at the length the vector still has *)
                 (try promise := Z.max !promise (Z.add (Z.of_int l.len) (Z.of_string n)) with _ -> ())
               | ("shrink_to_fit" | "into_slice" | "into_iter" | "clone" | "split_off" | "new") :: _ -> promise := Z.zero
               | _ -> ());
              if is_panic l.res then promise := Z.zero;
              if Z.lt l.cap !promise then begin
                report_spec ~prop:"C13" ~pred:"reserved_capacity_kept" ~detail:("cap=" ^ Z.to_string l.cap ^ "_promised=" ^ Z.to_string !promise);
                promise := Z.zero
              end;
              if List.length l.contents <> l.len then report_spec ~prop:"C13" ~pred:"len_matches_contents" ~detail:(string_of_int l.len);
              (* C16: nothing dropped is still reachable; no identity twice *)
              let c = sorted l.contents in
              let rec dup = function a :: (b :: _ as t) -> a = b || dup t | _ -> false in
              if dup c then report_spec ~prop:"C16" ~pred:"no_duplicate_identity" ~detail:(show_ids l.contents);
              if List.exists (fun d -> List.mem d l.contents) l.drops then
                report_spec ~prop:"C16" ~pred:"dropped_not_reachable" ~detail:(show_ids l.drops);
              if is_panic l.res then (feat := true; bump_count ("panic:" ^ l.res));
              (match !mv with
               | None -> ()
               | Some v ->
                 (match model_step !e v l with
                  | None ->
                    (* differential-only operation: take the implementation's state as the model's *)
                    bump_count "model:untracked_op";
                    let capi = Z.to_int (Z.min l.cap (Z.of_int 1000000)) in
                    let buf = List.map (fun x -> Some x) l.contents @ List.init (max 0 (capi - l.len)) (fun _ -> None) in
                    mv := (if is_panic l.res then None else Some { v_buf = buf; v_len = n_of_z (Z.of_int l.len) })
                  | Some m ->
                    incr model_ops;
                    let impl_res = if is_panic l.res then "panic" else l.res in
                    if m.m_res <> impl_res then report_mismatch ~field:"res" ~model:m.m_res ~impl:l.res;
                    if m.m_res = impl_res then begin
                      if contents m.m_vec <> l.contents then
                        report_mismatch ~field:"contents" ~model:(show_ids (contents m.m_vec)) ~impl:(show_ids l.contents);
                      if not (Z.equal (z_of_n (v_cap m.m_vec)) l.cap) then
                        report_mismatch ~field:"cap" ~model:(string_of_n (v_cap m.m_vec)) ~impl:(Z.to_string l.cap);
                      if m.m_exact_drops && m.m_drops <> l.drops then
                        report_mismatch ~field:"drops" ~model:(show_ids m.m_drops) ~impl:(show_ids l.drops)
                    end;
                    mv := Some m.m_vec)))
         | 'S' ->
           (* bumpalo vs std on the same call *)
           let s = parse_line line in
           (match !last_v with
            | Some v when v.op = s.op ->
              let pv = is_panic v.res and ps = is_panic s.res in
              if pv <> ps then report_spec ~prop:"C13" ~pred:"panics_like_std" ~detail:(v.res ^ "_vs_std_" ^ s.res)
              else if pv && v.res = s.res && v.res <> "panic:callback" then begin
                (* a call refused for its arguments (index, capacity) leaves the vector as std leaves it *)
                if v.contents <> s.contents then report_spec ~prop:"C13" ~pred:"refused_call_leaves_vector_like_std" ~detail:(show_ids v.contents ^ "_vs_std_" ^ show_ids s.contents);
                if sorted v.drops <> sorted s.drops then report_spec ~prop:"C15" ~pred:"refused_call_drops_like_std" ~detail:(show_ids v.drops ^ "_vs_std_" ^ show_ids s.drops)
              end
              else if not pv then begin
                if v.res <> s.res then report_spec ~prop:"C13" ~pred:"returns_like_std" ~detail:(v.res ^ "_vs_std_" ^ s.res);
                if v.contents <> s.contents then report_spec ~prop:"C13" ~pred:"contents_like_std" ~detail:(show_ids v.contents ^ "_vs_std_" ^ show_ids s.contents);
                if sorted v.drops <> sorted s.drops then report_spec ~prop:"C15" ~pred:"drops_like_std" ~detail:(show_ids v.drops ^ "_vs_std_" ^ show_ids s.drops)
              end
            | _ -> ())
         | 'X' ->
           let what = String.trim (String.sub line 1 (String.length line - 1)) in
           let what = String.map (fun c -> if c = ' ' then '_' else c) what in
           if starts_with what "callback_arguments" then report_spec ~prop:"C13" ~pred:"callback_arguments_like_std" ~detail:what
           else if starts_with what "into_" then report_spec ~prop:"C13" ~pred:"conversion_result_stable" ~detail:what
           else if starts_with what "neighbour" then report_spec ~prop:"C13" ~pred:"neighbours_untouched" ~detail:what
           else if starts_with what "final_drop_mismatch" then report_spec ~prop:"C15" ~pred:"final_drop_exact" ~detail:what
           else report_spec ~prop:"C16" ~pred:"no_double_drop" ~detail:what
         | 'G' ->
           (* C19 grid: G entry esize ealign len0 count | bump_res bump_cap | std_res *)
           let secs = List.map String.trim (String.split_on_char '|' line) in
           (match split_ws (List.nth secs 0), split_ws (List.nth secs 1), String.trim (List.nth secs 2) with
            | [_; entry; es; ea; len0; cnt], [bres; bcap], sres ->
              hid := "grid"; opno := 0; header := ""; cur := String.concat " " [entry; es; ea; len0; cnt];
              bump_count "grid_cases";
              let bclass = bres in
              (* against std *)
              if sres <> "skip" then begin
                let norm r = if starts_with r "panic:" then "panic" else r in
                if norm bclass <> norm sres then report_spec ~prop:"C19" ~pred:("grid_like_std_" ^ entry ^ "_es" ^ es) ~detail:(bres ^ "_vs_std_" ^ sres)
              end;
              (* the capacity claimed must cover what was asked for *)
              if bres = "ok" && Z.lt (Z.of_string bcap) (Z.add (Z.of_string len0) (Z.of_string cnt)) then
                report_spec ~prop:"C19" ~pred:("grid_capacity_covers_" ^ entry ^ "_es" ^ es) ~detail:(bcap ^ "_lt_" ^ len0 ^ "+" ^ cnt);
              (* against the model (element size > 0) *)
              if es <> "0" then begin
                let e = { e_size = n_of_string es; e_align = n_of_string ea } in
                let l0 = int_of_string len0 in
                let v0 = (* a vector of len0 elements built by pushes *)
                  List.fold_left (fun acc i -> match acc with Ret v -> push e v (n_of_z (Z.of_int i)) | p -> p)
                    (Ret { v_buf = []; v_len = N0 }) (List.init l0 (fun i -> i)) in
                let expect =
                  match entry, v0 with
                  | "with_capacity", _ -> (match vwith_capacity e (n_of_string cnt) with Ret _ -> "ok" | Panic PCapacity -> "panic:capacity" | Panic _ -> "panic:oom")
                  | ("reserve" | "reserve_exact"), Ret v -> (match reserve e v (n_of_string cnt) (entry = "reserve_exact") with Ret _ -> "ok" | Panic PCapacity -> "panic:capacity" | Panic _ -> "panic:oom")
                  | _, Ret v -> (match try_reserve e v (n_of_string cnt) (entry = "try_reserve_exact") with Inl _ -> "ok" | Inr CapacityOverflow -> "err:capacity" | Inr AllocErr -> "err:alloc")
                  | _, Panic _ -> "?" in
                (match entry with
                 | "with_capacity" ->
                   xc (Printf.sprintf "match vwith_capacity (mkEcfg %s %s) %s with Ret _ => 0 | Panic PCapacity => 1 | Panic _ => 2 end" es ea cnt)
                     (match expect with "ok" -> "0" | "panic:capacity" -> "1" | _ -> "2")
                 | _ -> ());
                if expect <> bclass then report_mismatch ~field:("grid_" ^ entry) ~model:expect ~impl:bres
              end
            | _ -> ())
         | 'Y' ->
           (* zero-sized elements: Y k op | res len drops (bumpalo) | res len drops (std) *)
           let secs = List.map String.trim (String.split_on_char '|' line) in
           (match secs with
            | [name; b; st] ->
              cur := name; bump_count "zst_ops";
              (match split_ws b, split_ws st with
               | [br; bl; bd], [sr; sl; sd] ->
                 let panicked = (br = "panic" || sr = "panic") in
                 if br <> sr then report_spec ~prop:"C13" ~pred:"zst_returns_like_std" ~detail:(br ^ "_vs_std_" ^ sr);
                 (* a reservation std refuses (its total count is not representable) and bumpalo grants *)
                 let is_reserve = (let has sub = (try ignore (Str.search_forward (Str.regexp_string sub) name 0); true with Not_found -> false) in
                                   has "Reserve") in
                 if is_reserve && (sr = "panic" || sr = "ok:false") && br <> sr then
                   report_spec ~prop:"C19" ~pred:"zst_impossible_reservation_refused" ~detail:(br ^ "_vs_std_" ^ sr);
                 if bl <> sl && not panicked then report_spec ~prop:"C13" ~pred:"zst_len_like_std" ~detail:(bl ^ "_vs_std_" ^ sl);
                 if bd <> sd && not panicked then report_spec ~prop:"C15" ~pred:"zst_drops_like_std" ~detail:(bd ^ "_vs_std_" ^ sd)
               | _ -> ())
            | _ -> ())
         | 'Q' ->
           (* conversions / collect_in against std: Q name .. | same-or-what-bumpalo-gave | std *)
           let secs = List.map String.trim (String.split_on_char '|' line) in
           (match secs with
            | [name; b; _] ->
              hid := "conversions"; opno := 0; header := ""; cur := name; bump_count "conversion_cases";
              if b <> "same" && starts_with name "Q drain_adaptors panicking_drop" then
                report_spec ~prop:"C16" ~pred:"no_double_drop_when_a_skipped_destructor_panics" ~detail:(String.map (fun c -> if c = ' ' then '_' else c) (name ^ ":" ^ b));
              if b <> "same" && starts_with name "Q drops_once" then
                report_spec ~prop:"C15" ~pred:"replaced_elements_dropped_once" ~detail:(String.map (fun c -> if c = ' ' then '_' else c) (name ^ ":" ^ b));
              if b <> "same" && starts_with name "Q drain_adaptors" then
                report_spec ~prop:"C15" ~pred:"skipped_items_dropped_once" ~detail:(String.map (fun c -> if c = ' ' then '_' else c) (name ^ ":" ^ b));
              if b <> "same" then report_spec ~prop:(if starts_with name "Q box_" then "C17" else "C13") ~pred:"conversions_like_std" ~detail:(String.map (fun c -> if c = ' ' then '_' else c) (name ^ ":" ^ b))
            | _ -> ())
         | 'I' ->
           (* C20: collections of two arenas that meet: I name | ok-or-what-went-wrong *)
           let secs = List.map String.trim (String.split_on_char '|' line) in
           (match secs with
            | [name; b] ->
              hid := "isolation"; opno := 0; header := ""; cur := name; bump_count "isolation_cases";
              if b <> "ok" then report_spec ~prop:"C20" ~pred:"collection_stays_in_its_arena" ~detail:(String.map (fun c -> if c = ' ' then '_' else c) b)
            | _ -> ())
         | 'R' ->
           (* C18 growth probes: R name es=.. .. reallocs|moved=<k> bound=<b> *)
           let kv = List.filter_map (fun it -> match String.index_opt it '=' with
               | Some i -> Some (String.sub it 0 i, String.sub it (i + 1) (String.length it - i - 1)) | None -> None) (split_ws line) in
           let name = (match split_ws line with _ :: n :: _ -> n | _ -> "?") in
           hid := "growth"; opno := 0; header := ""; cur := String.trim line; bump_count "growth_probes";
           let got = int_of_string (try List.assoc "reallocs" kv with Not_found -> List.assoc "moved" kv) in
           let bound = int_of_string (List.assoc "bound" kv) in
           if got > bound then report_spec ~prop:"C18" ~pred:name ~detail:(String.map (fun c -> if c = ' ' then '_' else c) (String.trim line))
         | 'Z' ->
           let secs = List.map String.trim (String.split_on_char '|' line) in
           (match secs with
            | [name; b; st] ->
              hid := "boundary"; opno := 0; header := ""; cur := name; bump_count "boundary_cases";
              let norm r = if starts_with r "ok" then r else "panic" in
              if norm b <> norm st then report_spec ~prop:"C19" ~pred:"boundary_like_std" ~detail:(b ^ "_vs_std_" ^ st)
            | _ -> ())
         | 'E' ->
           incr histories;
           if !feat || !opno > 6 then Hashtbl.replace nontrivial (Hashtbl.hash (Buffer.contents sigb)) ();
           if List.length !samples < 3 then samples := !header :: !samples
         | _ -> ()
     done
   with End_of_file -> ());
  (match !pending with
   | Some p -> cur := p; report_spec ~prop:"C13" ~pred:"returns" ~detail:"operation_did_not_return(crash_abort_or_hang)"
   | None -> ());
  let hs = Hashtbl.fold (fun k v acc -> Printf.sprintf "\"%s\":%d" k v :: acc) histo [] in
  Printf.printf "SUMMARY {\"histories\":%d,\"ops\":%d,\"model_ops\":%d,\"mismatches\":%d,\"spec_failures\":%d,\"distinct_nontrivial\":%d,\"histogram\":{%s},\"samples\":[%s]}\n"
    !histories !ops_total !model_ops !mismatches !specs (Hashtbl.length nontrivial)
    (String.concat "," (List.sort compare hs))
    (String.concat "," (List.map (fun s -> "\"" ^ String.escaped s ^ "\"") !samples))
